//! Simulation backend for excsn/fibre (deterministic simulation with fault injection).
//!
//! The `excsn_fibre_verif` hooks in /repo route the repository's primitive facade
//! (`channels/src/internal/sync.rs`), its clocks and its thread spawns to this crate. Every
//! synchronisation primitive here is a shuttle primitive, i.e. a scheduling point decided by the
//! harness' seeded scheduler; time is a per-run virtual clock; fault coins are drawn from the
//! run's single PRNG stream (through `shuttle::rand`, which asks the scheduler).
//!
//! Per-run state lives in *std* thread-locals: every simulated thread of a run is a coroutine on
//! the one OS thread that executes the run, so a std thread-local is a per-run global.

pub mod chan;
pub mod ctx;
pub mod hash;
pub mod mpsc;
pub mod sync;
pub mod time;

pub use chan::thread;
pub use ctx::{fault_fired, probe, FaultKind};

/// `thread_local!` whose values are local to the *simulated* thread (hook H8).
pub use shuttle::thread_local as sim_thread_local;
