pub struct ThreadRng;

pub fn rng() -> ThreadRng {
  ThreadRng
}

pub trait FromRng {
  fn from_u64(x: u64) -> Self;
}
impl FromRng for u64 {
  fn from_u64(x: u64) -> Self {
    x
  }
}
impl FromRng for u32 {
  fn from_u64(x: u64) -> Self {
    x as u32
  }
}
impl FromRng for usize {
  fn from_u64(x: u64) -> Self {
    x as usize
  }
}
impl FromRng for bool {
  fn from_u64(x: u64) -> Self {
    x & 1 == 1
  }
}

pub trait Rng {
  fn next_u64(&mut self) -> u64;
  fn random<T: FromRng>(&mut self) -> T {
    T::from_u64(self.next_u64())
  }
  fn random_range(&mut self, r: std::ops::Range<usize>) -> usize {
    let n = r.end.saturating_sub(r.start);
    if n == 0 {
      return r.start;
    }
    r.start + (self.next_u64() % n as u64) as usize
  }
  fn random_bool(&mut self, p: f64) -> bool {
    ((self.next_u64() >> 11) as f64 / (1u64 << 53) as f64) < p
  }
}

impl Rng for ThreadRng {
  fn next_u64(&mut self) -> u64 {
    fibre_verif_rt::ctx::draw()
  }
}

pub mod seq {
  use super::Rng;
  pub trait IteratorRandom: Iterator + Sized {
    fn choose<R: Rng + ?Sized>(self, rng: &mut R) -> Option<Self::Item> {
      let v: Vec<Self::Item> = self.collect();
      if v.is_empty() {
        return None;
      }
      let i = (rng.next_u64() % v.len() as u64) as usize;
      v.into_iter().nth(i)
    }
  }
  impl<I: Iterator> IteratorRandom for I {}
}

pub mod prelude {
  pub use super::seq::IteratorRandom;
  pub use super::Rng;
}
