pub use fibre_verif_rt::sync::{Mutex, MutexGuard};
