//! A check = the lanes that decide one property; prints VIOLATION / KNOWN-FINDING lines, writes the
//! evidence file, returns the exit code (0 clean or only listed findings, 1 unlisted violation,
//! 2 harness error).

use super::batch::{run_lane, Family, LaneCfg, LaneResult, Tier};
use super::known::Known;
use serde_json::{json, Value};
use std::collections::BTreeMap;
use std::sync::Arc;
use std::time::Instant;

pub struct Opts {
  pub property: String,
  pub tier: Tier,
  pub seed: u64,
  pub jobs: usize,
  pub verif_dir: String,
  /// scale factor on run counts (testing the harness itself)
  pub scale: f64,
  pub write_evidence: bool,
  pub survey: bool,
}

pub struct LaneSpec {
  pub name: String,
  pub quick_runs: u64,
  pub thorough_runs: u64,
  pub runner: Box<dyn Fn(&LaneCfg, &Known) -> LaneResult + Send + Sync>,
  /// worker-process entry: scan one part, return the JSON result
  pub scan_json: Box<dyn Fn(&LaneCfg, &Known) -> String + Send + Sync>,
}

pub fn lane<F: Family>(name: &str, fam: F, quick_runs: u64, thorough_runs: u64) -> LaneSpec {
  let fam = Arc::new(fam);
  let fam2 = fam.clone();
  LaneSpec {
    name: name.to_string(),
    quick_runs,
    thorough_runs,
    runner: Box::new(move |cfg, known| run_lane(fam.clone(), cfg, known)),
    scan_json: Box::new(move |cfg, known| super::batch::scan_json(fam2.clone(), cfg, known)),
  }
}

pub struct CheckSpec {
  pub property: String,
  pub level: &'static str,
  pub lanes: Vec<LaneSpec>,
  pub assumptions: Vec<String>,
  pub notes: Vec<String>,
}

/// Batch seed of lane `li` of a check (shared by the parent and its worker processes).
pub fn lane_seed(seed: u64, li: usize) -> u64 {
  seed ^ ((li as u64 + 1).wrapping_mul(0xA24B_AED4_963E_E407))
}

pub fn run_check(spec: CheckSpec, opts: &Opts) -> i32 {
  let t0 = Instant::now();
  let known = Known::load(&format!("{}/known_findings.json", opts.verif_dir));
  println!("fibsim check property={} tier={} VERIF_SEED={} jobs={}", spec.property, opts.tier.name(), opts.seed, opts.jobs);
  let mut results: Vec<LaneResult> = vec![];
  let mut exit = 0;
  let mut unlisted = 0usize;
  let mut known_printed: BTreeMap<String, usize> = BTreeMap::new();
  // (debugging aid, never set by registered commands: run only the lanes whose name contains this)
  let only_lane = std::env::var("VERIF_ONLY_LANE").ok();
  for (li, l) in spec.lanes.iter().enumerate() {
    if let Some(f) = &only_lane {
      if !l.name.contains(f.as_str()) {
        continue;
      }
    }
    let runs = ((if opts.tier == Tier::Quick { l.quick_runs } else { l.thorough_runs }) as f64 * opts.scale).ceil() as u64;
    let cfg = LaneCfg {
      lane: l.name.clone(),
      property: spec.property.clone(),
      batch_seed: lane_seed(opts.seed, li),
      runs,
      jobs: opts.jobs,
      stop_on_first: true,
      survey: opts.survey,
      part: None,
      lane_index: li,
      tier_quick: opts.tier == Tier::Quick,
      collect_hashes: false,
      replay_dir: format!("{}/replays", opts.verif_dir),
      shrink_budget: 1500,
    };
    let r = (l.runner)(&cfg, &known);
    println!(
      "  lane {:<28} runs={:<8} steps={:<10} distinct_traces={:<8} states={:<5} failures={:?} wall={:.1}s",
      r.stats.lane,
      r.stats.runs,
      r.stats.steps,
      r.stats.traces.len(),
      r.stats.states.len(),
      r.stats.failures_by_kind,
      r.stats.wall_s
    );
    if opts.survey {
      for (sig, (n, first)) in &r.stats.survey {
        println!("    SURVEY {n:>7}x first_run={first:<8} {sig}");
      }
    }
    for e in &r.harness_errors {
      println!("HARNESS-ERROR: {e}");
      exit = 2;
    }
    for f in &r.found {
      if let Some(k) = known.find(&f.violation) {
        let n = known_printed.entry(k.id.clone()).or_insert(0);
        if *n == 0 {
          println!("KNOWN-FINDING: property={} {} [{}] {} (replay={})", f.violation.property, k.id, f.violation.class, k.what, f.replay_path);
        }
        *n += 1;
      } else {
        unlisted += 1;
        println!("VIOLATION property={} replay={}", f.violation.property, f.replay_path);
        println!("  class={} facets={:?}", f.violation.class, f.violation.facets);
        println!("  detail: {}", f.violation.detail);
        println!("  run_index={} scenario minimised {} -> {} bytes", f.run_index, f.minimised_from, f.minimised_to);
        if exit == 0 {
          exit = 1;
        }
      }
    }
    results.push(r);
  }
  let wall = t0.elapsed().as_secs_f64();
  if opts.write_evidence {
    let ev = evidence(&spec, opts, &results, unlisted, &known_printed, wall);
    let dir = format!("{}/evidence", opts.verif_dir);
    let _ = std::fs::create_dir_all(&dir);
    let path = format!("{}/{}.json", dir, spec.property);
    if let Err(e) = std::fs::write(&path, serde_json::to_string_pretty(&ev).unwrap()) {
      println!("HARNESS-ERROR: cannot write {path}: {e}");
      exit = 2;
    }
  }
  println!("fibsim check property={} done: exit={} unlisted_violations={} known_findings={} wall={:.1}s", spec.property, exit, unlisted, known_printed.len(), wall);
  exit
}

fn evidence(spec: &CheckSpec, opts: &Opts, results: &[LaneResult], unlisted: usize, known: &BTreeMap<String, usize>, wall: f64) -> Value {
  let mut evaluations = 0u64;
  let mut distinct = 0u64;
  let mut states = 0u64;
  let mut steps = 0u64;
  let mut vtime: u128 = 0;
  let mut faults: BTreeMap<String, u64> = BTreeMap::new();
  let mut probes: BTreeMap<String, u64> = BTreeMap::new();
  let mut samples: Vec<Value> = vec![];
  let mut lanes: Vec<Value> = vec![];
  let mut rules: Vec<String> = vec![];
  let mut components: Vec<Value> = vec![];
  for r in results {
    let s = &r.stats;
    evaluations += s.runs;
    distinct += s.traces.len() as u64;
    states += s.states.len() as u64;
    steps += s.steps;
    vtime += s.vtime_ns;
    for (k, v) in &s.faults {
      *faults.entry(k.clone()).or_insert(0) += v;
    }
    for (k, v) in &s.probes {
      *probes.entry(k.clone()).or_insert(0) += v;
    }
    for x in s.samples.iter().take(2) {
      samples.push(json!({"lane": s.lane, "case": x}));
    }
    if !rules.contains(&s.rule) {
      rules.push(s.rule.clone());
    }
    if !components.contains(&s.components) {
      components.push(s.components.clone());
    }
    lanes.push(json!({
      "lane": s.lane, "runs": s.runs, "nontrivial_runs": s.nontrivial, "distinct_decision_traces": s.traces.len(),
      "distinct_states": s.states.len(), "scheduler_steps": s.steps, "context_switches": s.switches,
      "simulated_time_ns": s.vtime_ns.to_string(), "runs_per_hour": if s.wall_s > 0.0 { (s.runs as f64 / s.wall_s * 3600.0) as u64 } else { 0 },
      "run_failures_by_kind": s.failures_by_kind, "wall_s": s.wall_s,
      "violations_found": r.found.iter().map(|f| json!({"class": f.violation.class, "facets": f.violation.facets, "replay": f.replay_path, "run_index": f.run_index})).collect::<Vec<_>>(),
    }));
  }
  json!({
    "property_id": spec.property,
    "tier": opts.tier.name(),
    "seed": opts.seed,
    "level": spec.level,
    "wall_s": wall,
    "violations": unlisted,
    "coverage": {
      "evaluations": evaluations,
      "distinct_nontrivial": distinct,
      "rule": rules.join(" || "),
      "samples": samples,
      "states": states,
      "states_measure": "distinct abstract states reached, by each lane's stated measure (e.g. (flavour, operation form, sync/async, outcome) tuples for channels)",
      "scheduler_steps": steps,
      "simulated_time_ns": vtime.to_string(),
      "runs_per_hour": if wall > 0.0 { (evaluations as f64 / wall * 3600.0) as u64 } else { 0 },
      "seeds": format!("run i of lane l uses seed splitmix(VERIF_SEED ^ lane_salt(l) ^ i*K); VERIF_SEED={}", opts.seed),
      "faults_fired": faults,
      "probes": probes,
      "lanes": lanes,
      "components": components,
      "known_findings_printed": known,
      "notes": spec.notes,
      "exhaustive": false
    },
    "assumptions": spec.assumptions,
  })
}
