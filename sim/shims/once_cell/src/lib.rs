//! Stand-in for `once_cell` in the simulation build (see Cargo.toml).
#![allow(dead_code)]

mod imp;

pub mod unsync {
  pub use real_once_cell::unsync::*;
}

pub mod sync {
  use super::imp::OnceCell as Imp;

  /// `once_cell::sync::OnceCell`: the wrapper methods are once_cell's (lib.rs), the engine is
  /// its `imp_std` on simulated primitives.
  pub struct OnceCell<T>(Imp<T>);

  impl<T> Default for OnceCell<T> {
    fn default() -> Self {
      Self::new()
    }
  }

  impl<T: std::fmt::Debug> std::fmt::Debug for OnceCell<T> {
    fn fmt(&self, f: &mut std::fmt::Formatter) -> std::fmt::Result {
      match self.get() {
        Some(v) => f.debug_tuple("OnceCell").field(v).finish(),
        None => f.write_str("OnceCell(Uninit)"),
      }
    }
  }

  impl<T> From<T> for OnceCell<T> {
    fn from(value: T) -> Self {
      Self::with_value(value)
    }
  }

  impl<T> OnceCell<T> {
    pub fn new() -> OnceCell<T> {
      OnceCell(Imp::new())
    }

    pub fn with_value(value: T) -> OnceCell<T> {
      OnceCell(Imp::with_value(value))
    }

    pub fn get(&self) -> Option<&T> {
      if self.0.is_initialized() {
        // Safe b/c value is initialized.
        Some(unsafe { self.get_unchecked() })
      } else {
        None
      }
    }

    pub unsafe fn get_unchecked(&self) -> &T {
      self.0.get_unchecked()
    }

    /// Sets the contents of this cell to `value` (once_cell's `set`: `Err(value)` if full).
    pub fn set(&self, value: T) -> Result<(), T> {
      match self.try_insert(value) {
        Ok(_) => Ok(()),
        Err((_, value)) => Err(value),
      }
    }

    /// Like `set`, but also returns a reference to the final cell value.
    pub fn try_insert(&self, value: T) -> Result<&T, (&T, T)> {
      let mut value = Some(value);
      let res = self.get_or_init(|| unsafe { value.take().unwrap_unchecked() });
      match value {
        None => Ok(res),
        Some(value) => Err((res, value)),
      }
    }

    pub fn get_mut(&mut self) -> Option<&mut T> {
      self.0.get_mut()
    }

    pub fn take(&mut self) -> Option<T> {
      std::mem::take(self).into_inner()
    }

    pub fn into_inner(self) -> Option<T> {
      self.0.into_inner()
    }

    /// Blocks until the cell is initialised by another thread.
    pub fn wait(&self) -> &T {
      if !self.0.is_initialized() {
        self.0.wait()
      }
      debug_assert!(self.0.is_initialized());
      unsafe { self.get_unchecked() }
    }

    pub fn get_or_init<F>(&self, f: F) -> &T
    where
      F: FnOnce() -> T,
    {
      enum Void {}
      match self.get_or_try_init(|| Ok::<T, Void>(f())) {
        Ok(val) => val,
        Err(void) => match void {},
      }
    }

    pub fn get_or_try_init<F, E>(&self, f: F) -> Result<&T, E>
    where
      F: FnOnce() -> Result<T, E>,
    {
      // Fast path check
      if let Some(value) = self.get() {
        return Ok(value);
      }

      self.0.initialize(f)?;

      // Safe b/c value is initialized.
      debug_assert!(self.0.is_initialized());
      Ok(unsafe { self.get_unchecked() })
    }
  }

  /// `once_cell::sync::Lazy` for process-wide statics of the code under test: the value is
  /// created on first use *in each simulated run* (each worker OS thread of the harness runs its
  /// own simulated world, so the slot is per OS thread) and dropped when the next run on that
  /// thread first touches it, so runs stay independent (a real process has exactly one run).
  /// References handed out must not outlive their run; simulated threads never do.
  pub struct Lazy<T, F = fn() -> T> {
    init: F,
    _t: std::marker::PhantomData<fn() -> T>,
  }

  thread_local! {
    /// address of the `Lazy` -> (run epoch, value)
    static SLOTS: std::cell::RefCell<std::collections::HashMap<usize, (u64, Box<dyn std::any::Any>)>> = std::cell::RefCell::new(std::collections::HashMap::new());
  }

  impl<T, F> Lazy<T, F> {
    pub const fn new(f: F) -> Lazy<T, F> {
      Lazy { init: f, _t: std::marker::PhantomData }
    }
  }

  impl<T: 'static, F: Fn() -> T> Lazy<T, F> {
    pub fn force(this: &Lazy<T, F>) -> &T {
      let epoch = fibre_verif_rt::ctx::run_epoch();
      let addr = this as *const _ as usize;
      let fresh = SLOTS.with(|s| !matches!(s.borrow().get(&addr), Some((e, _)) if *e == epoch));
      if fresh {
        // (built outside the borrow: the initialiser may touch other lazies)
        let v: Box<dyn std::any::Any> = Box::new((this.init)());
        SLOTS.with(|s| s.borrow_mut().insert(addr, (epoch, v)));
      }
      SLOTS.with(|s| {
        let s = s.borrow();
        let p: *const T = s.get(&addr).unwrap().1.downcast_ref::<T>().unwrap();
        unsafe { &*p }
      })
    }
  }

  impl<T: 'static, F: Fn() -> T> std::ops::Deref for Lazy<T, F> {
    type Target = T;
    fn deref(&self) -> &T {
      Lazy::force(self)
    }
  }
}
