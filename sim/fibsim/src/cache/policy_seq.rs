//! CACHE-POLICY family (C14, direct view): 1–3 simulated threads call one built-in eviction
//! policy directly (admit / access / remove / evict / clear with arbitrary keys and costs,
//! including zero cost and repeated keys). The seeded scheduler decides how the per-thread call
//! sequences merge; a gate records the effective order, and the recorded call log is replayed
//! against a reference bookkeeping of tracked keys (strict: every cost is known here, unlike in
//! the system view where read batches may carry the cost of an older entry).

use super::PolicyKind;
use crate::chan::conc::{Knobs, ModeSer};
use crate::core::batch::{hash_str, Evaluated, Family, Violation};
use crate::core::rng::Rng;
use crate::core::run::{FailKind, RunCfg, RunOut};
use fibre_cache::policy::AdmissionDecision;
use serde::{Deserialize, Serialize};
use serde_json::{json, Value};
use std::cell::RefCell;
use std::collections::{BTreeMap, BTreeSet};
use std::sync::Arc;

#[derive(Clone, Debug, Serialize, Deserialize, PartialEq)]
pub enum PCall {
  Admit { k: u8, cost: u64 },
  Access { k: u8 },
  Remove { k: u8 },
  Evict { want: u64 },
  Clear,
}

#[derive(Clone, Debug, Serialize, Deserialize)]
pub struct PolSc {
  pub policy: PolicyKind,
  pub capacity: u64,
  pub threads: Vec<Vec<PCall>>,
  pub knobs: Knobs,
}

#[derive(Clone, Debug)]
pub enum PLog {
  Admit { k: u8, cost: u64, decision: &'static str, victims: Vec<u8> },
  Access { k: u8, cost: u64 },
  Remove { k: u8 },
  Evict { want: u64, victims: Vec<u8>, freed: u64 },
  Clear,
  /// final evict(everything): every tracked key must still be evictable
  Drain { victims: Vec<u8>, freed: u64 },
}

thread_local! {
  static LOG: RefCell<Vec<PLog>> = const { RefCell::new(Vec::new()) };
  /// last admitted cost per key (what a consistent caller passes to on_access)
  static COSTS: RefCell<BTreeMap<u8, u64>> = const { RefCell::new(BTreeMap::new()) };
  static CUR: RefCell<Option<Arc<PolSc>>> = const { RefCell::new(None) };
}

const KEYS: u64 = 5;

fn policy_main() {
  let sc: Arc<PolSc> = CUR.with(|c| c.borrow().clone()).expect("no current scenario");
  let pol: Arc<Box<dyn fibre_cache::policy::CachePolicy<u8, super::Val>>> = Arc::new(sc.policy.make(sc.capacity));
  let gate = Arc::new(shuttle::sync::Mutex::new(()));
  let mut joins = vec![];
  for i in 0..sc.threads.len() {
    let sc2 = sc.clone();
    let pol = pol.clone();
    let gate = gate.clone();
    joins.push(shuttle::thread::spawn(move || {
      for call in &sc2.threads[i] {
        shuttle::thread::yield_now();
        let _g = gate.lock().unwrap();
        let entry = match call {
          PCall::Admit { k, cost } => {
            let d = pol.on_admit(k, *cost);
            let (decision, victims) = match d {
              AdmissionDecision::Admit => ("Admit", vec![]),
              AdmissionDecision::Reject => ("Reject", vec![]),
              AdmissionDecision::AdmitAndEvict(v) => ("AdmitAndEvict", v),
            };
            if decision != "Reject" {
              COSTS.with(|c| c.borrow_mut().insert(*k, *cost));
            }
            PLog::Admit { k: *k, cost: *cost, decision, victims }
          }
          PCall::Access { k } => {
            let cost = COSTS.with(|c| c.borrow().get(k).copied().unwrap_or(1));
            pol.on_access(k, cost);
            PLog::Access { k: *k, cost }
          }
          PCall::Remove { k } => {
            pol.on_remove(k);
            PLog::Remove { k: *k }
          }
          PCall::Evict { want } => {
            let (victims, freed) = pol.evict(*want);
            PLog::Evict { want: *want, victims, freed }
          }
          PCall::Clear => {
            pol.clear();
            PLog::Clear
          }
        };
        LOG.with(|l| l.borrow_mut().push(entry));
      }
    }));
  }
  for j in joins {
    j.join().unwrap();
  }
  let (victims, freed) = pol.evict(1 << 40);
  LOG.with(|l| l.borrow_mut().push(PLog::Drain { victims, freed }));
}

#[derive(Clone, Debug)]
struct Tracked {
  cost: u64,
  /// cost of the admission that started the tracking (a policy that ignores re-admissions
  /// keeps reporting this one)
  first_cost: u64,
}

pub fn evaluate(sc: &PolSc, log: &[PLog], out: &RunOut) -> Vec<Violation> {
  let mk = |class: &str, detail: String| {
    let mut facets = BTreeMap::new();
    facets.insert("policy".to_string(), format!("{:?}", sc.policy));
    facets.insert("view".to_string(), "direct".to_string());
    Violation { property: "C14".into(), class: class.into(), facets, detail }
  };
  let mut vs = vec![];
  if let Some(f) = &out.failure {
    let class = match f.kind {
      FailKind::Deadlock => "deadlock",
      FailKind::StepBound => "step_bound",
      FailKind::Panic => "panic",
    };
    vs.push(mk(class, format!("{} at {}", f.message, f.location)));
    return vs;
  }
  let mut tracked: BTreeMap<u8, Tracked> = BTreeMap::new();
  // definition order: LRU = recency (front = most recent), FIFO = insertion
  let mut order: Vec<u8> = vec![];
  let lru = sc.policy == PolicyKind::Lru;
  let fifo = sc.policy == PolicyKind::Fifo;
  let check_victims = |what: &str, want: u64, victims: &[u8], freed: u64, tracked: &mut BTreeMap<u8, Tracked>, order: &mut Vec<u8>, vs: &mut Vec<Violation>, drain: bool| {
    let total_before: u64 = tracked.values().map(|t| t.cost).sum();
    let mut seen = BTreeSet::new();
    let mut exp = 0u64;
    let mut exp_first = 0u64;
    let mut all_tracked = true;
    if (lru || fifo) && victims.iter().all(|v| tracked.contains_key(v)) {
      // victims must be the oldest entries, in order
      let expect: Vec<u8> = order.iter().rev().take(victims.len()).copied().collect();
      if expect != victims {
        vs.push(mk(if lru { "lru_order_violated" } else { "fifo_order_violated" }, format!("{what} nominated {victims:?} but by definition the next victims are {expect:?} (oldest first; order oldest..newest = {:?})", order.iter().rev().collect::<Vec<_>>())));
      }
    }
    for v in victims {
      if !seen.insert(*v) {
        vs.push(mk("victim_nominated_twice", format!("{what} nominated key {v} twice")));
        continue;
      }
      match tracked.remove(v) {
        Some(t) => {
          exp += t.cost;
          exp_first += t.first_cost;
          order.retain(|k| k != v);
        }
        None => {
          all_tracked = false;
          vs.push(mk("evict_victim_not_tracked", format!("{what} nominated key {v} that the policy is not tracking (never admitted, already nominated, or removed)")));
        }
      }
    }
    if all_tracked && freed != exp {
      if freed == exp_first {
        vs.push(mk("readmit_cost_not_updated", format!("{what} reported {freed} freed for {victims:?}: the costs of their first admissions; their re-admissions carried costs that sum to {exp}")));
      } else {
        vs.push(mk("evict_reported_wrong_cost", format!("{what} reported {freed} freed but the recorded costs of its victims {victims:?} sum to {exp}")));
      }
    }
    if drain {
      if !tracked.is_empty() {
        vs.push(mk("tracked_key_not_evictable", format!("after the workload evict(everything) returned {victims:?} but the policy was also tracking {:?} (admitted, never nominated, never removed)", tracked.keys().collect::<Vec<_>>())));
      }
    } else if total_before >= want && exp < want && all_tracked && freed >= want && freed == exp_first {
      // the policy believes it freed enough because it still holds first-admission costs
      vs.push(mk("readmit_cost_not_updated", format!("{what} stopped after victims {victims:?} worth {exp} because it reports {freed} freed: the costs of their first admissions")));
    } else if total_before >= want && exp < want && all_tracked {
      vs.push(mk("evict_freed_less_than_requested", format!("{what} freed only {exp} although the tracked keys were worth {total_before} (left: {:?})", tracked.iter().map(|(k, t)| (*k, t.cost)).collect::<Vec<_>>())));
    }
  };
  for (i, e) in log.iter().enumerate() {
    match e {
      PLog::Admit { k, cost, decision, victims } => {
        // victims of an admission: tracked keys (or the admitted key itself)
        let mut seen = BTreeSet::new();
        for v in victims {
          if !seen.insert(*v) {
            vs.push(mk("victim_nominated_twice", format!("call {i}: on_admit({k}, {cost}) nominated key {v} twice")));
            continue;
          }
          if tracked.remove(v).is_none() && v != k {
            vs.push(mk("admission_victim_not_tracked", format!("call {i}: on_admit({k}, {cost}) nominated victim {v} that the policy is not tracking")));
          }
          order.retain(|x| x != v);
        }
        if *decision != "Reject" && !victims.contains(k) {
          match tracked.get_mut(k) {
            Some(t) => {
              t.cost = *cost;
              if lru {
                order.retain(|x| x != k);
                order.insert(0, *k);
              }
            }
            None => {
              tracked.insert(*k, Tracked { cost: *cost, first_cost: *cost });
              order.retain(|x| x != k);
              order.insert(0, *k);
            }
          }
        }
      }
      PLog::Access { k, .. } => {
        if lru && tracked.contains_key(k) {
          order.retain(|x| x != k);
          order.insert(0, *k);
        }
      }
      PLog::Remove { k } => {
        tracked.remove(k);
        order.retain(|x| x != k);
      }
      PLog::Evict { want, victims, freed } => {
        check_victims(&format!("call {i}: evict({want})"), *want, victims, *freed, &mut tracked, &mut order, &mut vs, false);
      }
      PLog::Clear => {
        tracked.clear();
        order.clear();
      }
      PLog::Drain { victims, freed } => {
        check_victims("final evict(everything)", 0, victims, *freed, &mut tracked, &mut order, &mut vs, true);
      }
    }
  }
  vs
}

pub struct PolicyFamily;

impl Family for PolicyFamily {
  type Sc = PolSc;

  fn name(&self) -> &'static str {
    "CACHE-POLICY"
  }

  fn rule(&self) -> &'static str {
    "one case = one built-in policy instance (capacity 1-8 for the capacity-sized ones) driven directly by 1-3 simulated threads x <=10 calls (admit / access / remove / evict / clear over 5 keys, costs 0-4) whose merge order the seeded scheduler decides, followed by evict(everything); non-trivial = >=1 evict that returned a victim and >=3 admissions; distinct = distinct scheduler decision-trace hash"
  }

  fn needs_fresh_thread(&self) -> bool {
    false
  }

  fn max_steps(&self) -> usize {
    50_000
  }

  fn generate(&self, rng: &mut Rng) -> PolSc {
    let policy = *rng.pick(&PolicyKind::ALL[..8]);
    let capacity = *rng.pick(&[1u64, 2, 3, 4, 6, 8]);
    let n = rng.range(1, 3);
    let mut threads = vec![];
    for _ in 0..n {
      let len = rng.range(2, 10);
      let ops = (0..len)
        .map(|_| {
          let k = rng.below(KEYS) as u8;
          match rng.below(16) {
            0..=6 => PCall::Admit { k, cost: *rng.pick(&[1u64, 1, 1, 2, 3, 4, 0]) },
            7..=9 => PCall::Access { k },
            10 | 11 => PCall::Remove { k },
            12..=14 => PCall::Evict { want: *rng.pick(&[1u64, 1, 2, 3, 5, 0]) },
            _ => {
              if rng.chance(1, 3) {
                PCall::Clear
              } else {
                PCall::Access { k }
              }
            }
          }
        })
        .collect();
      threads.push(ops);
    }
    let total: u32 = threads.iter().map(|t: &Vec<PCall>| t.len() as u32).sum();
    let mut knobs = Knobs::gen(rng, false, 20 * (total + 4));
    knobs.max_steps = 50_000;
    PolSc { policy, capacity, threads, knobs }
  }

  fn begin(&self, sc: &PolSc, record_trace: bool) -> RunCfg {
    LOG.with(|l| l.borrow_mut().clear());
    COSTS.with(|c| c.borrow_mut().clear());
    CUR.with(|c| *c.borrow_mut() = Some(Arc::new(sc.clone())));
    sc.knobs.run_cfg(record_trace)
  }

  fn body(&self) -> Arc<dyn Fn() + Send + Sync> {
    Arc::new(policy_main)
  }

  fn finish(&self, sc: &PolSc, out: RunOut) -> Evaluated {
    CUR.with(|c| *c.borrow_mut() = None);
    let log = LOG.with(|l| std::mem::take(&mut *l.borrow_mut()));
    if std::env::var("VERIF_DUMP").is_ok() {
      for (i, e) in log.iter().enumerate() {
        println!("  call {i}: {e:?}");
      }
      println!("  failure={:?}", out.failure);
    }
    let violations = evaluate(sc, &log, &out);
    let mut states: Vec<u64> = log
      .iter()
      .map(|e| {
        let s = match e {
          PLog::Admit { decision, victims, .. } => format!("admit|{decision}|{}", victims.len().min(2)),
          PLog::Access { .. } => "access".to_string(),
          PLog::Remove { .. } => "remove".to_string(),
          PLog::Evict { want, victims, freed } => format!("evict|{}|{}", victims.len().min(3), freed >= want),
          PLog::Clear => "clear".to_string(),
          PLog::Drain { victims, .. } => format!("drain|{}", victims.len().min(3)),
        };
        hash_str(&format!("{:?}|{s}", sc.policy))
      })
      .collect();
    states.sort();
    states.dedup();
    let admits = log.iter().filter(|e| matches!(e, PLog::Admit { .. })).count();
    let evicted = log.iter().any(|e| matches!(e, PLog::Evict { victims, .. } if !victims.is_empty()));
    Evaluated { out, violations, states, nontrivial: admits >= 3 && evicted }
  }

  fn shrink(&self, sc: &PolSc) -> Vec<PolSc> {
    let mut out = vec![];
    if sc.threads.len() > 1 {
      for i in 0..sc.threads.len() {
        let mut c = sc.clone();
        c.threads.remove(i);
        out.push(c);
      }
      // merge everything into one thread (keeps the calls, removes the schedule dependence)
      let mut c = sc.clone();
      let merged: Vec<PCall> = c.threads.drain(..).flatten().collect();
      c.threads = vec![merged];
      out.push(c);
    }
    for (ti, t) in sc.threads.iter().enumerate() {
      if t.len() > 1 {
        for oi in 0..t.len() {
          let mut c = sc.clone();
          c.threads[ti].remove(oi);
          out.push(c);
        }
      }
      for (oi, op) in t.iter().enumerate() {
        if let PCall::Admit { k, cost } = op {
          if *cost > 1 {
            let mut c = sc.clone();
            c.threads[ti][oi] = PCall::Admit { k: *k, cost: 1 };
            out.push(c);
          }
        }
      }
    }
    if sc.knobs.mode != ModeSer::Uniform {
      let mut c = sc.clone();
      c.knobs.mode = ModeSer::Uniform;
      out.push(c);
    }
    out.retain(|c| !c.threads.is_empty() && c.threads.iter().all(|t| !t.is_empty()));
    out
  }

  fn reseed(&self, sc: &PolSc, seed: u64) -> PolSc {
    let mut c = sc.clone();
    c.knobs.seed = seed;
    c
  }

  fn components(&self) -> Value {
    json!({
      "real": ["fibre_cache::policy::{tinylfu, sieve, slru, arc, lru, fifo, clock, random} behind the public CachePolicy trait, lru_list"],
      "stub": ["parking_lot::Mutex -> shuttle Mutex", "rand / ahash -> deterministic shims seeded from the run",
               "the cache around the policy is absent in this lane: the harness plays janitor and handles"],
    })
  }
}
