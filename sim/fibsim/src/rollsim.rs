//! ROLLER family (the rolling-file half of C20): the real `CustomRoller` (reached through hook
//! H11 with an explicit clock) over a real scratch directory, driven by a generated sequence of
//! record writes, flushes, clock steps (to just before / exactly at / after minute, hour and day
//! boundaries) and restarts over the existing directory (also with unrelated files lying
//! around). The files left behind are read back (gunzipped where compressed) and compared with
//! the written record sequence.

use crate::chan::conc::Knobs;
use crate::core::batch::{hash_str, Evaluated, Family, Violation};
use crate::core::rng::Rng;
use crate::core::run::{FailKind, RunCfg, RunOut};
use chrono::{DateTime, TimeZone, Utc};
use fibre_logging::config::processed::{CompressionPolicyInternal, RollingPolicyInternal};
use fibre_logging::roller_verif::Roller;
use fibre_verif_rt::ctx::{self, FaultKind};
use serde::{Deserialize, Serialize};
use serde_json::{json, Value};
use std::cell::RefCell;
use std::collections::BTreeMap;
use std::io::Read;
use std::path::PathBuf;
use std::sync::Arc;

#[derive(Clone, Debug, Serialize, Deserialize, PartialEq)]
pub enum ROp {
  /// one record of `len` bytes in total (id, filler, newline)
  Write { len: u32 },
  Flush,
  Advance { secs: i64 },
  /// drop the roller (flushes) and open a new one over the same directory
  Restart,
  /// same, and an unrelated file appears in the directory meanwhile
  RestartWithForeignFile,
}

#[derive(Clone, Debug, Serialize, Deserialize)]
pub struct RollSc {
  pub granularity: String,
  pub max_file_size: Option<u64>,
  pub max_retained: Option<u32>,
  /// (compressed suffix, max uncompressed)
  pub compression: Option<(String, u32)>,
  pub prefix: String,
  /// seconds after 2024-03-09T00:00:00Z at which the run starts
  pub start_secs: i64,
  pub ops: Vec<ROp>,
  pub knobs: Knobs,
}

#[derive(Default, Debug)]
pub struct RHist {
  /// (id, total length) of every record whose write returned Ok
  pub written: Vec<(u32, u32)>,
  pub write_errors: Vec<String>,
  /// files at the end: (name, decoded content)
  pub files: Vec<(String, Vec<u8>)>,
  pub rolls_possible: u32,
  pub io_error: Option<String>,
}

thread_local! {
  static H: RefCell<RHist> = RefCell::new(RHist::default());
  static CUR: RefCell<Option<Arc<RollSc>>> = const { RefCell::new(None) };
  static DIR_SEQ: std::cell::Cell<u64> = const { std::cell::Cell::new(0) };
}

fn base_time() -> DateTime<Utc> {
  Utc.with_ymd_and_hms(2024, 3, 9, 0, 0, 0).unwrap()
}

fn record(id: u32, len: u32) -> Vec<u8> {
  let head = format!("{id}:{len}:");
  let mut v = head.into_bytes();
  let want = (len as usize).max(v.len() + 1);
  while v.len() < want - 1 {
    v.push(b'a' + (v.len() % 23) as u8);
  }
  v.push(b'\n');
  v
}

fn policy(sc: &RollSc, dir: &PathBuf) -> RollingPolicyInternal {
  RollingPolicyInternal {
    directory: dir.clone(),
    file_name_prefix: sc.prefix.clone(),
    file_name_suffix: ".log".into(),
    time_granularity: sc.granularity.clone(),
    max_file_size: sc.max_file_size,
    max_retained_sequences: sc.max_retained,
    compression: sc.compression.as_ref().map(|(s, n)| CompressionPolicyInternal { compressed_file_suffix: s.clone(), max_uncompressed_sequences: *n }),
  }
}

fn roll_main() {
  let sc: Arc<RollSc> = CUR.with(|c| c.borrow().clone()).expect("no current scenario");
  let n = DIR_SEQ.with(|d| {
    let v = d.get();
    d.set(v + 1);
    v
  });
  let dir = std::env::temp_dir().join(format!("fibsim-roller-{}-{:?}-{}", std::process::id(), std::thread::current().id(), n)).join("logs");
  let _ = std::fs::remove_dir_all(dir.parent().unwrap());
  let res = (|| -> Result<(), String> {
    std::fs::create_dir_all(&dir).map_err(|e| e.to_string())?;
    let mut now = base_time() + chrono::Duration::seconds(sc.start_secs);
    let mut roller = Some(Roller::open(policy(&sc, &dir), now).map_err(|e| e.to_string())?);
    let mut next_id = 1u32;
    for op in &sc.ops {
      match op {
        ROp::Write { len } => {
          let rec = record(next_id, *len);
          match roller.as_mut().unwrap().write_all(&rec, now) {
            Ok(()) => H.with(|h| h.borrow_mut().written.push((next_id, rec.len() as u32))),
            Err(e) => H.with(|h| h.borrow_mut().write_errors.push(format!("record {next_id}: {e}"))),
          }
          next_id += 1;
        }
        ROp::Flush => {
          let _ = roller.as_mut().unwrap().flush();
        }
        ROp::Advance { secs } => {
          now += chrono::Duration::seconds(*secs);
          ctx::fault_fired(FaultKind::ClockJump);
        }
        ROp::Restart | ROp::RestartWithForeignFile => {
          drop(roller.take());
          if matches!(op, ROp::RestartWithForeignFile) {
            std::fs::write(dir.join("notes.txt"), b"unrelated").map_err(|e| e.to_string())?;
            std::fs::write(dir.join(format!("{}-other.log", sc.prefix)), b"unrelated too").map_err(|e| e.to_string())?;
          }
          ctx::fault_fired(FaultKind::CrashRestart);
          roller = Some(Roller::open(policy(&sc, &dir), now).map_err(|e| e.to_string())?);
        }
      }
    }
    drop(roller.take());
    // read everything back
    let mut files = vec![];
    for ent in std::fs::read_dir(&dir).map_err(|e| e.to_string())? {
      let p = ent.map_err(|e| e.to_string())?.path();
      let name = p.file_name().unwrap().to_string_lossy().to_string();
      let raw = std::fs::read(&p).map_err(|e| e.to_string())?;
      let content = match &sc.compression {
        Some((suffix, _)) if name.ends_with(suffix.as_str()) => {
          let mut out = vec![];
          flate2::read::GzDecoder::new(&raw[..]).read_to_end(&mut out).map_err(|e| format!("{name}: not a valid gzip stream: {e}"))?;
          out
        }
        _ => raw,
      };
      files.push((name, content));
    }
    files.sort();
    H.with(|h| h.borrow_mut().files = files);
    Ok(())
  })();
  if let Err(e) = res {
    H.with(|h| h.borrow_mut().io_error = Some(e));
  }
  let _ = std::fs::remove_dir_all(dir.parent().unwrap());
}

/// (period key for ordering, sequence) of a rolled file name, None for other files
fn parse_rolled(sc: &RollSc, name: &str) -> Option<(String, u32)> {
  let rest = name.strip_prefix(&format!("{}.", sc.prefix))?;
  let rest = match &sc.compression {
    Some((suffix, _)) => rest.strip_suffix(suffix.as_str()).unwrap_or(rest),
    None => rest,
  };
  let rest = rest.strip_suffix(".log")?;
  let (period, seq) = rest.rsplit_once('.')?;
  let seq: u32 = seq.parse().ok()?;
  if period.len() < 10 || !period.as_bytes()[0].is_ascii_digit() {
    return None;
  }
  Some((period.to_string(), seq))
}

/// Split a file's content into whole records; Err with what is wrong otherwise.
fn parse_records(content: &[u8]) -> Result<Vec<(u32, u32)>, String> {
  let mut out = vec![];
  let mut rest = content;
  while !rest.is_empty() {
    let text = String::from_utf8_lossy(&rest[..rest.len().min(40)]).to_string();
    let mut it = text.splitn(3, ':');
    let (id, len) = match (it.next().and_then(|s| s.parse::<u32>().ok()), it.next().and_then(|s| s.parse::<u32>().ok())) {
      (Some(i), Some(l)) => (i, l),
      _ => return Err(format!("not at a record boundary: {text:?}")),
    };
    let len = len as usize;
    let actual = record(id, len as u32);
    if rest.len() < actual.len() {
      return Err(format!("record {id} is cut short ({} of {} bytes)", rest.len(), actual.len()));
    }
    if rest[..actual.len()] != actual[..] {
      return Err(format!("record {id} is damaged"));
    }
    out.push((id, actual.len() as u32));
    rest = &rest[actual.len()..];
  }
  Ok(out)
}

pub fn evaluate(sc: &RollSc, h: &RHist, out: &RunOut) -> Vec<Violation> {
  let mk = |class: &str, detail: String| {
    let mut facets = BTreeMap::new();
    facets.insert("granularity".to_string(), sc.granularity.clone());
    facets.insert("compression".to_string(), sc.compression.is_some().to_string());
    facets.insert("retention".to_string(), sc.max_retained.is_some().to_string());
    Violation { property: "C20".into(), class: class.into(), facets, detail }
  };
  let mut vs = vec![];
  if let Some(f) = &out.failure {
    let class = match f.kind {
      FailKind::Deadlock => "deadlock",
      FailKind::StepBound => "step_bound",
      FailKind::Panic => "panic",
    };
    vs.push(mk(class, format!("{} at {}", f.message, f.location)));
    return vs;
  }
  if let Some(e) = &h.io_error {
    vs.push(mk("roller_io_error", e.clone()));
    return vs;
  }
  for e in &h.write_errors {
    vs.push(mk("write_failed", e.clone()));
  }
  // order the files: rolled ones by (period, sequence), the active file last
  let active = format!("{}.log", sc.prefix);
  let mut rolled: Vec<(String, u32, &Vec<u8>, &String)> = vec![];
  let mut active_content: Option<&Vec<u8>> = None;
  for (name, content) in &h.files {
    if *name == active {
      active_content = Some(content);
    } else if let Some((period, seq)) = parse_rolled(sc, name) {
      rolled.push((period, seq, content, name));
    }
  }
  rolled.sort_by(|a, b| (a.0.as_str(), a.1).cmp(&(b.0.as_str(), b.1)));
  let names: Vec<&String> = h.files.iter().map(|f| &f.0).collect();
  if let Some(maxr) = sc.max_retained {
    if rolled.len() as u32 > maxr {
      vs.push(mk("too_many_rolled_files_retained", format!("{} rolled files are left, the policy retains at most {maxr}: {names:?}", rolled.len())));
    }
  }
  let mut seq: Vec<(u32, u32)> = vec![];
  for (_, _, content, name) in &rolled {
    match parse_records(content) {
      Ok(r) => seq.extend(r),
      Err(e) => vs.push(mk("torn_record", format!("file {name}: {e}"))),
    }
  }
  match active_content {
    Some(c) => match parse_records(c) {
      Ok(r) => seq.extend(r),
      Err(e) => vs.push(mk("torn_record", format!("active file {active}: {e}"))),
    },
    None => vs.push(mk("active_file_missing", format!("no {active} in {names:?}"))),
  }
  if !vs.is_empty() {
    return vs;
  }
  // what is left must be a contiguous suffix of what was written, in order, without repeats
  let written: Vec<u32> = h.written.iter().map(|w| w.0).collect();
  let left: Vec<u32> = seq.iter().map(|r| r.0).collect();
  for w in left.windows(2) {
    if w[1] == w[0] {
      vs.push(mk("record_duplicated", format!("record {} appears twice in the files {names:?} ({left:?})", w[0])));
    } else if w[1] < w[0] {
      vs.push(mk("records_reordered", format!("record {} comes after record {} in the files (ordered by period and sequence) {names:?} ({left:?})", w[1], w[0])));
    }
  }
  if vs.is_empty() {
    let tail = &written[written.len() - left.len().min(written.len())..];
    if left != tail {
      let missing: Vec<u32> = written.iter().copied().filter(|id| !left.contains(id) && left.first().map_or(true, |f| id > f)).collect();
      vs.push(mk("record_lost", format!("the files {names:?} hold records {left:?}; written were {written:?}; records {missing:?} are missing from the middle or the end")));
    } else if sc.max_retained.is_none() && left.len() != written.len() {
      vs.push(mk("record_lost", format!("no retention limit is configured, yet only records {left:?} of {written:?} are left in {names:?} (a rolled file was overwritten or deleted)")));
    }
  }
  vs
}

pub struct RollFamily;

impl Family for RollFamily {
  type Sc = RollSc;

  fn name(&self) -> &'static str {
    "ROLLER"
  }

  fn rule(&self) -> &'static str {
    "one case = one rolling policy (minutely / hourly / daily / never; size limit none / 40 / 120 / 600 / 9000 bytes; retention none / 1 / 2 / 3 / 5; gzip compression with suffix .gz or .zip keeping 0-2 uncompressed) over a fresh scratch directory, 3-16 operations (record writes of 8-300 bytes, rarely 12 kB; flush; clock steps of 1 s .. 2 days chosen to land before / at / after minute, hour and day boundaries; restart over the existing directory, optionally with unrelated files appearing); non-trivial = >=1 roll-capable write after the first and >=3 records; distinct = distinct (policy, operation kinds) hash"
  }

  fn needs_fresh_thread(&self) -> bool {
    false
  }

  fn max_steps(&self) -> usize {
    10_000
  }

  fn generate(&self, rng: &mut Rng) -> RollSc {
    let granularity = rng.pick(&["minutely", "hourly", "daily", "never"]).to_string();
    let max_file_size = *rng.pick(&[None, None, Some(40u64), Some(120), Some(600), Some(9000)]);
    let max_retained = *rng.pick(&[None, None, Some(1u32), Some(2), Some(3), Some(5)]);
    let compression = if rng.chance(1, 3) { Some((rng.pick(&[".gz", ".zip"]).to_string(), rng.below(3) as u32)) } else { None };
    // start shortly before a boundary so that small steps cross it
    let start_secs = *rng.pick(&[0i64, 59, 3599, 86_399, 86_340, 12 * 3600 + 30, 23 * 3600 + 59 * 60 + 58]);
    let n = rng.range(3, 16);
    let ops = (0..n)
      .map(|_| match rng.below(12) {
        0..=5 => ROp::Write { len: if rng.chance(1, 40) { 12_000 } else { *rng.pick(&[8u32, 20, 39, 40, 41, 100, 300]) } },
        6 => ROp::Flush,
        7..=9 => ROp::Advance { secs: *rng.pick(&[1i64, 1, 2, 30, 59, 60, 61, 3599, 3600, 3601, 86_399, 86_400, 172_800]) },
        10 => ROp::Restart,
        _ => ROp::RestartWithForeignFile,
      })
      .collect();
    let mut knobs = Knobs::gen(rng, false, 100);
    knobs.max_steps = 10_000;
    RollSc { granularity, max_file_size, max_retained, compression, prefix: rng.pick(&["app", "svc.main"]).to_string(), start_secs, ops, knobs }
  }

  fn begin(&self, sc: &RollSc, record_trace: bool) -> RunCfg {
    H.with(|h| *h.borrow_mut() = RHist::default());
    CUR.with(|c| *c.borrow_mut() = Some(Arc::new(sc.clone())));
    sc.knobs.run_cfg(record_trace)
  }

  fn body(&self) -> Arc<dyn Fn() + Send + Sync> {
    Arc::new(roll_main)
  }

  fn finish(&self, sc: &RollSc, out: RunOut) -> Evaluated {
    CUR.with(|c| *c.borrow_mut() = None);
    let h = H.with(|h| std::mem::take(&mut *h.borrow_mut()));
    if std::env::var("VERIF_DUMP").is_ok() {
      println!("  policy: {} size={:?} retain={:?} compression={:?} prefix={} start=+{}s", sc.granularity, sc.max_file_size, sc.max_retained, sc.compression, sc.prefix, sc.start_secs);
      for op in &sc.ops {
        println!("  op {op:?}");
      }
      println!("  written {:?}", h.written);
      for (n, c) in &h.files {
        println!("  file {n}: {} bytes: {:?}", c.len(), parse_records(c).map(|r| r.iter().map(|x| x.0).collect::<Vec<_>>()));
      }
      println!("  errors {:?} {:?} failure={:?}", h.write_errors, h.io_error, out.failure);
    }
    let violations = evaluate(sc, &h, &out);
    let kinds: Vec<String> = sc.ops.iter().map(|o| format!("{o:?}").split(' ').next().unwrap_or("").to_string()).collect();
    let states = vec![hash_str(&format!("{}|{:?}|{:?}|{}|{}", sc.granularity, sc.max_file_size.is_some(), sc.max_retained, sc.compression.is_some(), h.files.len())), hash_str(&kinds.join(","))];
    let nontrivial = h.written.len() >= 3 && h.files.len() >= 2;
    Evaluated { out, violations, states, nontrivial }
  }

  fn shrink(&self, sc: &RollSc) -> Vec<RollSc> {
    let mut out = vec![];
    if sc.ops.len() > 1 {
      for i in 0..sc.ops.len() {
        let mut c = sc.clone();
        c.ops.remove(i);
        out.push(c);
      }
    }
    for (i, op) in sc.ops.iter().enumerate() {
      if let ROp::Write { len } = op {
        if *len > 8 {
          let mut c = sc.clone();
          c.ops[i] = ROp::Write { len: 8 };
          out.push(c);
        }
      }
      if matches!(op, ROp::RestartWithForeignFile) {
        let mut c = sc.clone();
        c.ops[i] = ROp::Restart;
        out.push(c);
      }
    }
    if sc.compression.is_some() {
      let mut c = sc.clone();
      c.compression = None;
      out.push(c);
    }
    if sc.start_secs != 0 {
      let mut c = sc.clone();
      c.start_secs = 0;
      out.push(c);
    }
    if sc.prefix != "app" {
      let mut c = sc.clone();
      c.prefix = "app".into();
      out.push(c);
    }
    out
  }

  fn reseed(&self, sc: &RollSc, seed: u64) -> RollSc {
    let mut c = sc.clone();
    c.knobs.seed = seed;
    c
  }

  fn components(&self) -> Value {
    json!({
      "real": ["fibre_logging::roller::CustomRoller (write_internal, roll, find_rolled_files, cleanup, compress_file) over the real file system in a scratch directory, flate2 gzip, RollingPolicyInternal path helpers"],
      "stub": ["the wall clock: every write carries the simulated time (hook H11: verif::Roller::write(buf, now))",
               "process restart -> the roller is dropped and re-opened over the same directory"],
    })
  }
}
