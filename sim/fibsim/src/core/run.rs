//! Executes one run (one scenario under one schedule) on the current OS thread and classifies how
//! it ended.

use super::sched::{Mode, SchedShared, SchedStats, SimScheduler};
use fibre_verif_rt::ctx::{self, FaultRates};
use std::cell::RefCell;
use std::collections::BTreeMap;
use std::panic::{self, AssertUnwindSafe};
use std::rc::Rc;
use std::sync::Once;

#[derive(Clone, Debug)]
pub struct RunCfg {
  pub seed: u64,
  pub mode: Mode,
  /// F1 rate at the scheduler (1/65536 per decision)
  pub spurious_rate: u32,
  pub rates: FaultRates,
  pub max_steps: usize,
  pub record_trace: bool,
  pub guide: Option<Vec<u16>>,
  pub start_ns: u64,
  pub stack_size: usize,
}

impl RunCfg {
  pub fn new(seed: u64) -> Self {
    RunCfg {
      seed,
      mode: Mode::Uniform,
      spurious_rate: 0,
      rates: FaultRates::default(),
      max_steps: 200_000,
      record_trace: false,
      guide: None,
      start_ns: 1_000_000_000,
      stack_size: 0x20000,
    }
  }
}

#[derive(Clone, Debug, PartialEq)]
pub enum FailKind {
  /// shuttle: every simulated thread/task is blocked
  Deadlock,
  /// the step bound was exceeded (bounded-liveness failure / livelock)
  StepBound,
  /// a panic inside library or harness code
  Panic,
}

#[derive(Clone, Debug)]
pub struct Failure {
  pub kind: FailKind,
  pub message: String,
  pub location: String,
}

#[derive(Debug)]
pub struct RunOut {
  pub stats: SchedStats,
  pub faults: BTreeMap<&'static str, u64>,
  pub probes: BTreeMap<&'static str, u64>,
  pub vtime_ns: u64,
  pub no_park_violations: u64,
  pub failure: Option<Failure>,
}

thread_local! {
  static LAST_PANIC: RefCell<Option<(String, String)>> = const { RefCell::new(None) };
  static IN_RUN: std::cell::Cell<bool> = const { std::cell::Cell::new(false) };
  /// lets scenario code reach the scheduler's shared state (e.g. to arm the starve mode)
  static SCHED: RefCell<Option<SchedShared>> = const { RefCell::new(None) };
}

pub fn with_sched<R>(f: impl FnOnce(&mut SchedStats) -> R) -> Option<R> {
  SCHED.with(|s| s.borrow().as_ref().map(|sh| f(&mut sh.borrow_mut())))
}

static HOOK: Once = Once::new();

/// Install the harness panic hook. Must run after shuttle installed its own (which happens on the
/// first `Runner::run`), so one trivial execution is done first.
pub fn init_process() {
  HOOK.call_once(|| {
    let shared: SchedShared = Rc::new(RefCell::new(SchedStats::default()));
    let s = SimScheduler::new(0, Mode::Uniform, 0, false, shared);
    let mut c = shuttle::Config::new();
    c.failure_persistence = shuttle::FailurePersistence::None;
    c.silence_warnings = true;
    shuttle::Runner::new(s, c).run(|| {});
    panic::set_hook(Box::new(|info| {
      let msg = if let Some(s) = info.payload().downcast_ref::<&str>() {
        s.to_string()
      } else if let Some(s) = info.payload().downcast_ref::<String>() {
        s.clone()
      } else {
        "<non-string panic>".to_string()
      };
      let loc = info.location().map(|l| format!("{}:{}", l.file(), l.line())).unwrap_or_default();
      if IN_RUN.with(|r| r.get()) {
        LAST_PANIC.with(|p| {
          let mut p = p.borrow_mut();
          // keep the first panic of the run (later ones are consequences)
          if p.is_none() {
            *p = Some((msg, loc));
          }
        });
      } else {
        println!("HARNESS-PANIC: {msg} at {loc}");
      }
    }));
  });
}

pub fn execute<F>(cfg: &RunCfg, body: F) -> RunOut
where
  F: Fn() + Send + Sync + 'static,
{
  init_process();
  ctx::reset_run(cfg.rates, cfg.start_ns);
  let shared: SchedShared = Rc::new(RefCell::new(SchedStats::default()));
  let mut sched = SimScheduler::new(cfg.seed, cfg.mode, cfg.spurious_rate, cfg.record_trace, shared.clone());
  if let Some(g) = &cfg.guide {
    sched = sched.with_guide(g.clone());
  }
  let mut c = shuttle::Config::new();
  c.failure_persistence = shuttle::FailurePersistence::None;
  c.silence_warnings = true;
  c.max_steps = shuttle::MaxSteps::FailAfter(cfg.max_steps);
  c.stack_size = cfg.stack_size;
  LAST_PANIC.with(|p| *p.borrow_mut() = None);
  SCHED.with(|s| *s.borrow_mut() = Some(shared.clone()));
  IN_RUN.with(|r| r.set(true));
  let res = panic::catch_unwind(AssertUnwindSafe(|| {
    shuttle::Runner::new(sched, c).run(body);
  }));
  IN_RUN.with(|r| r.set(false));
  SCHED.with(|s| *s.borrow_mut() = None);
  let failure = match res {
    Ok(()) => None,
    Err(payload) => {
      let (mut msg, loc) = LAST_PANIC.with(|p| p.borrow_mut().take()).unwrap_or_default();
      if msg.is_empty() {
        msg = if let Some(s) = payload.downcast_ref::<&str>() {
          s.to_string()
        } else if let Some(s) = payload.downcast_ref::<String>() {
          s.clone()
        } else {
          "<panic>".into()
        };
      }
      let kind = if msg.starts_with("deadlock!") {
        FailKind::Deadlock
      } else if msg.starts_with("exceeded max_steps") {
        FailKind::StepBound
      } else {
        FailKind::Panic
      };
      Some(Failure { kind, message: msg, location: loc })
    }
  };
  let stats = shared.borrow().clone();
  RunOut {
    stats,
    faults: {
      let mut f = ctx::take_faults();
      let sw = shared.borrow().spurious_wakes;
      if sw > 0 {
        *f.entry("F1_spurious_wake_of_parked_thread").or_insert(0) += sw;
      }
      f
    },
    probes: ctx::take_probes(),
    vtime_ns: fibre_verif_rt::time::covered_ns(),
    no_park_violations: ctx::no_park_violations(),
    failure,
  }
}

/// Run `f` on a fresh OS thread (std caches its `RandomState` keys per thread; a fresh thread per
/// run makes hash iteration orders a function of the run alone) and return its result.
pub fn on_fresh_thread<R: Send + 'static>(f: impl FnOnce() -> R + Send + 'static) -> R {
  std::thread::Builder::new()
    .stack_size(4 << 20)
    .spawn(f)
    .expect("spawn run thread")
    .join()
    .expect("run thread panicked outside a run")
}
