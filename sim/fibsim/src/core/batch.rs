//! Seeded search: many short, diverse runs in parallel; every failure is minimised, written as a
//! replay file and re-checked; evidence is aggregated from what the runs actually did.

use super::rng::{run_seed, Rng};
use super::run::{RunCfg, RunOut};
use serde::{de::DeserializeOwned, Deserialize, Serialize};
use serde_json::{json, Value};
use std::collections::{BTreeMap, BTreeSet, HashSet};
use std::sync::atomic::{AtomicBool, AtomicU64, Ordering};
use std::sync::{Arc, Mutex};
use std::time::Instant;

#[derive(Clone, Debug, Serialize, Deserialize, PartialEq)]
pub struct Violation {
  pub property: String,
  /// violation class, e.g. "ok_send_never_received", "deadlock", "duplicate_delivery"
  pub class: String,
  /// signature facets used for known-finding matching (flavour, op kinds, ...)
  pub facets: BTreeMap<String, String>,
  pub detail: String,
}

pub struct Evaluated {
  pub out: RunOut,
  pub violations: Vec<Violation>,
  /// coverage: abstract "states" reached, by the family's stated measure
  pub states: Vec<u64>,
  /// whether this run counts as non-trivial by the family's rule
  pub nontrivial: bool,
}

#[derive(Clone, Copy, Debug, PartialEq)]
pub enum Tier {
  Quick,
  Thorough,
}

impl Tier {
  pub fn name(self) -> &'static str {
    match self {
      Tier::Quick => "quick",
      Tier::Thorough => "thorough",
    }
  }
}

/// One scenario family (generator + executor + oracle + shrinker).
pub trait Family: Sync + Send + 'static {
  type Sc: Clone + Send + Sync + Serialize + DeserializeOwned + 'static;
  fn name(&self) -> &'static str;
  /// what makes a run non-trivial / distinct, for the evidence file
  fn rule(&self) -> &'static str;
  fn generate(&self, rng: &mut Rng) -> Self::Sc;
  /// Whether each run needs a fresh OS thread (std caches `RandomState` keys per thread, so
  /// families whose code iterates std hash maps must say yes to stay deterministic). Families
  /// that say no run as sessions on a reused thread, which reuses the coroutine stacks.
  fn needs_fresh_thread(&self) -> bool {
    true
  }
  fn max_steps(&self) -> usize {
    200_000
  }
  fn stack_size(&self) -> usize {
    0x20000
  }
  /// Install the scenario as the current run of this OS thread and return the run knobs.
  fn begin(&self, sc: &Self::Sc, record_trace: bool) -> RunCfg;
  /// The simulated main thread; reads the scenario installed by `begin`.
  fn body(&self) -> Arc<dyn Fn() + Send + Sync>;
  /// Collect the history of the finished run and evaluate all oracles.
  fn finish(&self, sc: &Self::Sc, out: RunOut) -> Evaluated;
  /// Execute one scenario on the current OS thread.
  fn run(&self, sc: &Self::Sc, record_trace: bool) -> Evaluated {
    let mut cfg = self.begin(sc, record_trace);
    cfg.max_steps = self.max_steps();
    cfg.stack_size = self.stack_size();
    let b = self.body();
    let out = super::run::execute(&cfg, move || b());
    self.finish(sc, out)
  }
  /// Smaller variants of a failing scenario (each must be a valid scenario).
  fn shrink(&self, sc: &Self::Sc) -> Vec<Self::Sc>;
  /// Re-seed the schedule part of a scenario (used while shrinking: a smaller program usually
  /// needs a different schedule to fail the same way).
  fn reseed(&self, sc: &Self::Sc, seed: u64) -> Self::Sc;
  /// real/stub component table for the evidence
  fn components(&self) -> Value;
}

#[derive(Default, Serialize, Deserialize)]
pub struct LaneStats {
  pub lane: String,
  pub runs: u64,
  pub steps: u64,
  pub switches: u64,
  pub vtime_ns: u128,
  pub nontrivial: u64,
  pub traces: HashSet<u64>,
  pub states: HashSet<u64>,
  pub faults: BTreeMap<String, u64>,
  pub probes: BTreeMap<String, u64>,
  pub failures_by_kind: BTreeMap<String, u64>,
  pub samples: Vec<Value>,
  pub wall_s: f64,
  /// survey mode: signature -> (count, lowest run index)
  pub survey: BTreeMap<String, (u64, u64)>,
  /// determinism self-test: (run index, event-log hash) of every run
  pub run_hashes: Vec<(u64, u64)>,
  pub rule: String,
  pub components: Value,
}

pub struct Found {
  pub run_index: u64,
  pub violation: Violation,
  pub scenario: Value,
  pub replay_path: String,
  pub minimised_from: usize,
  pub minimised_to: usize,
}

pub struct LaneResult {
  pub stats: LaneStats,
  pub found: Vec<Found>,
  pub harness_errors: Vec<String>,
}

pub struct LaneCfg {
  pub lane: String,
  pub property: String,
  pub batch_seed: u64,
  pub runs: u64,
  pub jobs: usize,
  /// stop the lane at the first (lowest-index) unlisted violation
  pub stop_on_first: bool,
  pub replay_dir: String,
  /// violation filter: only violations of `property` are reported by this check
  pub shrink_budget: usize,
  /// triage mode: never stop, no minimisation, count the distinct violation signatures of every
  /// property instead
  pub survey: bool,
  /// this process scans only run indices i with i % n == r (multi-process scan)
  pub part: Option<(u64, u64)>,
  /// registry coordinates of the lane (for worker processes)
  pub lane_index: usize,
  pub tier_quick: bool,
  /// determinism self-test: record a hash per run
  pub collect_hashes: bool,
}

fn scenario_size(v: &Value) -> usize {
  serde_json::to_string(v).map(|s| s.len()).unwrap_or(0)
}

pub type Hits<Sc> = Vec<(u64, Violation, Sc)>;

/// Run one lane: scan (in this process, or split over worker processes for families that need a
/// fresh OS thread per run - thread creation and stack mmap contend badly inside one process),
/// then minimise / write replay files for what was found.
pub fn run_lane<F: Family>(fam: Arc<F>, cfg: &LaneCfg, known: &super::known::Known) -> LaneResult {
  let t0 = Instant::now();
  let multi = fam.needs_fresh_thread() && cfg.jobs > 1 && cfg.part.is_none() && std::env::var("VERIF_NO_FORK").is_err();
  let (mut stats, hits, errors) = if multi { scan_multiprocess::<F>(&fam, cfg) } else { scan(fam.clone(), cfg, known) };
  stats.lane = cfg.lane.clone();
  stats.rule = fam.rule().into();
  stats.components = fam.components();
  let mut r = post(fam, cfg, known, stats, hits, errors);
  r.stats.wall_s = t0.elapsed().as_secs_f64();
  r
}

/// Worker-process entry: scan one part and print the result as one JSON document.
pub fn scan_json<F: Family>(fam: Arc<F>, cfg: &LaneCfg, known: &super::known::Known) -> String {
  let (stats, hits, errors) = scan(fam, cfg, known);
  let hits: Vec<Value> = hits.into_iter().map(|(i, v, sc)| json!([i, v, serde_json::to_value(&sc).unwrap()])).collect();
  serde_json::to_string(&json!({"stats": stats, "hits": hits, "errors": errors})).unwrap()
}

fn scan_multiprocess<F: Family>(_fam: &Arc<F>, cfg: &LaneCfg) -> (LaneStats, Hits<F::Sc>, Vec<String>) {
  let exe = std::env::current_exe().expect("current_exe");
  let n = cfg.jobs as u64;
  let mut children = vec![];
  for r in 0..n {
    let child = std::process::Command::new(&exe)
      .arg("worker")
      .arg(&cfg.property)
      .arg(cfg.lane_index.to_string())
      .arg(cfg.batch_seed.to_string())
      .arg(cfg.runs.to_string())
      .arg(r.to_string())
      .arg(n.to_string())
      .arg(if cfg.tier_quick { "quick" } else { "thorough" })
      .arg(if cfg.survey { "1" } else { "0" })
      .stdout(std::process::Stdio::piped())
      .stderr(std::process::Stdio::null())
      .spawn();
    children.push(child);
  }
  let mut stats = LaneStats::default();
  let mut hits: Hits<F::Sc> = vec![];
  let mut errors = vec![];
  for (r, child) in children.into_iter().enumerate() {
    let out = match child.and_then(|c| c.wait_with_output()) {
      Ok(o) => o,
      Err(e) => {
        errors.push(format!("worker {r}: {e}"));
        continue;
      }
    };
    let text = String::from_utf8_lossy(&out.stdout);
    let line = text.lines().rev().find(|l| l.starts_with('{'));
    let v: Value = match line.map(serde_json::from_str) {
      Some(Ok(v)) => v,
      _ => {
        errors.push(format!("worker {r}: no result (exit {:?}): {}", out.status.code(), text.chars().take(300).collect::<String>()));
        continue;
      }
    };
    match serde_json::from_value::<LaneStats>(v["stats"].clone()) {
      Ok(s) => merge_stats(&mut stats, s),
      Err(e) => errors.push(format!("worker {r}: bad stats: {e}")),
    }
    for h in v["hits"].as_array().cloned().unwrap_or_default() {
      let idx = h[0].as_u64().unwrap_or(0);
      let viol: Result<Violation, _> = serde_json::from_value(h[1].clone());
      let sc: Result<F::Sc, _> = serde_json::from_value(h[2].clone());
      match (viol, sc) {
        (Ok(v), Ok(sc)) => hits.push((idx, v, sc)),
        _ => errors.push(format!("worker {r}: bad hit")),
      }
    }
    for e in v["errors"].as_array().cloned().unwrap_or_default() {
      errors.push(format!("worker {r}: {}", e.as_str().unwrap_or("?")));
    }
  }
  (stats, hits, errors)
}

fn merge_stats(g: &mut LaneStats, local: LaneStats) {
  g.runs += local.runs;
  g.steps += local.steps;
  g.switches += local.switches;
  g.vtime_ns += local.vtime_ns;
  g.nontrivial += local.nontrivial;
  g.traces.extend(local.traces);
  g.states.extend(local.states);
  for (k, v) in local.faults {
    *g.faults.entry(k).or_insert(0) += v;
  }
  for (k, v) in local.probes {
    *g.probes.entry(k).or_insert(0) += v;
  }
  for (k, v) in local.failures_by_kind {
    *g.failures_by_kind.entry(k).or_insert(0) += v;
  }
  g.samples.extend(local.samples);
  g.run_hashes.extend(local.run_hashes);
  for (k, v) in local.survey {
    let e = g.survey.entry(k).or_insert((0, u64::MAX));
    e.0 += v.0;
    e.1 = e.1.min(v.1);
  }
}

fn scan<F: Family>(fam: Arc<F>, cfg: &LaneCfg, known: &super::known::Known) -> (LaneStats, Hits<F::Sc>, Vec<String>) {
  let next = Arc::new(AtomicU64::new(0));
  let stop = Arc::new(AtomicBool::new(false));
  let stats = Arc::new(Mutex::new(LaneStats::default()));
  // (run index, violation, scenario)
  let hits: Arc<Mutex<Vec<(u64, Violation, F::Sc)>>> = Arc::new(Mutex::new(vec![]));
  let first_hit = Arc::new(AtomicU64::new(u64::MAX));
  let mut handles = vec![];
  for _ in 0..cfg.jobs.max(1) {
    let fam = fam.clone();
    let next = next.clone();
    let stop = stop.clone();
    let stats = stats.clone();
    let hits = hits.clone();
    let first_hit = first_hit.clone();
    let property = cfg.property.clone();
    // triage aid (never set by registered commands): report violations of every property
    let any_property = std::env::var("VERIF_ANY_PROPERTY").is_ok();
    let known_w = known.clone();
    let batch_seed = cfg.batch_seed;
    let runs = cfg.runs;
    let stop_on_first = cfg.stop_on_first;
    let survey = cfg.survey;
    let collect_hashes = cfg.collect_hashes;
    let part = cfg.part;
    let announce: Option<(String, String, String)> = if std::env::var("FIBSIM_ANNOUNCE_RUNS").is_ok() && !cfg.replay_dir.is_empty() {
      Some((format!("{}/{}", cfg.replay_dir, cfg.property), cfg.property.clone(), cfg.lane.clone()))
    } else {
      None
    };
    handles.push(std::thread::spawn(move || {
      use std::cell::RefCell;
      use std::rc::Rc;
      let local = Rc::new(RefCell::new(LaneStats::default()));
      // accounting of one evaluated run
      let account = {
        let local = local.clone();
        let hits = hits.clone();
        let first_hit = first_hit.clone();
        let stop = stop.clone();
        let known_w = known_w.clone();
        let property = property.clone();
        move |i: u64, seed: u64, sc: &F::Sc, ev: Evaluated| {
          let mut local = local.borrow_mut();
          local.runs += 1;
          local.steps += ev.out.stats.steps;
          local.switches += ev.out.stats.switches;
          local.vtime_ns += ev.out.vtime_ns as u128;
          if ev.nontrivial {
            local.nontrivial += 1;
            local.traces.insert(ev.out.stats.trace_hash);
          }
          for s in &ev.states {
            local.states.insert(*s);
          }
          for (k, v) in &ev.out.faults {
            *local.faults.entry(k.to_string()).or_insert(0) += v;
          }
          for (k, v) in &ev.out.probes {
            *local.probes.entry(k.to_string()).or_insert(0) += v;
          }
          if let Some(f) = &ev.out.failure {
            *local.failures_by_kind.entry(format!("{:?}", f.kind)).or_insert(0) += 1;
          }
          if i < 3 {
            local.samples.push(json!({"run": i, "seed": seed, "scenario": serde_json::to_value(sc).unwrap_or(Value::Null),
              "steps": ev.out.stats.steps, "context_switches": ev.out.stats.switches}));
          }
          if collect_hashes {
            let mut h = super::rng::fnv1a(ev.out.stats.trace_hash, ev.out.stats.steps);
            h = super::rng::fnv1a(h, ev.out.stats.draws);
            h = super::rng::fnv1a(h, ev.out.vtime_ns);
            for s in &ev.states {
              h = super::rng::fnv1a(h, *s);
            }
            for v in &ev.violations {
              h = super::rng::fnv1a(h, hash_str(&signature(v)));
            }
            if std::env::var("VERIF_HASH_RUN").ok().map(|v| v == "all" || v.parse::<u64>().ok() == Some(i)).unwrap_or(false) {
              println!("HASHDBG run={i} trace={:016x} steps={} draws={} vtime={} states={:?} viol={:?} sc={}", ev.out.stats.trace_hash, ev.out.stats.steps, ev.out.stats.draws, ev.out.vtime_ns, ev.states, ev.violations.iter().map(signature).collect::<Vec<_>>(), serde_json::to_string(sc).unwrap_or_default());
            }
            local.run_hashes.push((i, h));
          }
          if survey {
            for v in &ev.violations {
              let e = local.survey.entry(signature(v)).or_insert((0, i));
              e.0 += 1;
              e.1 = e.1.min(i);
            }
            return;
          }
          for v in ev.violations {
            if v.property == property || any_property {
              // a listed finding is reported once and never ends the search
              let listed = known_w.matches(&v);
              let mut h = hits.lock().unwrap();
              if listed && h.iter().filter(|x| known_w.matches(&x.1)).count() >= 4 {
                continue;
              }
              h.push((i, v, sc.clone()));
              drop(h);
              if !listed {
                first_hit.fetch_min(i, Ordering::SeqCst);
                if stop_on_first {
                  stop.store(true, Ordering::SeqCst);
                }
              }
            }
          }
        }
      };
      let claim = {
        let next = next.clone();
        let stop = stop.clone();
        let first_hit = first_hit.clone();
        move || -> Option<u64> {
          loop {
            let i = next.fetch_add(1, Ordering::SeqCst);
            if i >= runs || (stop.load(Ordering::SeqCst) && i > first_hit.load(Ordering::SeqCst)) {
              return None;
            }
            if let Some((r, n)) = part {
              if i % n != r {
                continue;
              }
            }
            return Some(i);
          }
        }
      };
      if fam.needs_fresh_thread() {
        while let Some(i) = claim() {
          let seed = run_seed(batch_seed, i);
          let fam2 = fam.clone();
          let (sc, ev) = super::run::on_fresh_thread(move || {
            let mut rng = Rng::new(seed);
            let sc = fam2.generate(&mut rng);
            let ev = fam2.run(&sc, false);
            (sc, ev)
          });
          account(i, seed, &sc, ev);
        }
      } else {
        // session: many runs inside one shuttle Runner on this thread
        let cur: Rc<RefCell<Option<(u64, u64, F::Sc)>>> = Rc::new(RefCell::new(None));
        let cur2 = cur.clone();
        let fam_n = fam.clone();
        let fam_d = fam.clone();
        let max_steps = fam.max_steps();
        let stack = fam.stack_size();
        let hooks = super::run::SessionHooks {
          next: Box::new(move || {
            let i = claim()?;
            let seed = run_seed(batch_seed, i);
            let mut rng = Rng::new(seed);
            let sc = fam_n.generate(&mut rng);
            if let Some((dir, prop, lane)) = &announce {
              // single-worker re-scan after the process died (see main.rs supervise): leave the
              // scenario about to run behind, so the run that kills the process is known
              let _ = std::fs::create_dir_all(dir);
              let path = format!("{}/inflight_{}.json", dir, lane.replace('/', "_"));
              let doc = json!({
                "property": prop, "family": fam_n.name(), "lane": lane, "batch_seed": batch_seed, "run_index": i, "run_seed": seed,
                "violation": {"property": prop, "class": "process_aborted", "facets": {}, "detail": "executing this scenario killed the process"},
                "scenario": serde_json::to_value(&sc).unwrap_or(Value::Null), "trace_hash": "", "decision_trace": [],
              });
              if std::fs::write(&path, serde_json::to_string(&doc).unwrap()).is_ok() {
                println!("RUNNING lane={lane} index={i} replay={path}");
              }
            }
            let cfg = fam_n.begin(&sc, false);
            *cur2.borrow_mut() = Some((i, seed, sc));
            Some(cfg)
          }),
          done: Box::new(move |out| {
            if let Some((i, seed, sc)) = cur.borrow_mut().take() {
              let ev = fam_d.finish(&sc, out);
              account(i, seed, &sc, ev);
            }
          }),
        };
        super::run::execute_many(max_steps, stack, hooks, fam.body());
      }
      let local = std::mem::take(&mut *local.borrow_mut());
      let mut g = stats.lock().unwrap();
      merge_stats(&mut g, local);
    }));
  }
  let mut harness_errors = vec![];
  for h in handles {
    if h.join().is_err() {
      harness_errors.push("worker thread panicked".to_string());
    }
  }
  let stats = std::mem::take(&mut *stats.lock().unwrap());
  let hits = std::mem::take(&mut *hits.lock().unwrap());
  (stats, hits, harness_errors)
}

fn post<F: Family>(fam: Arc<F>, cfg: &LaneCfg, known: &super::known::Known, mut stats: LaneStats, mut hits: Hits<F::Sc>, mut harness_errors: Vec<String>) -> LaneResult {
  stats.samples.sort_by_key(|s| s["run"].as_u64().unwrap_or(0));
  stats.samples.truncate(3);

  // Process hits in run-index order so the report does not depend on the worker count.
  hits.sort_by_key(|h| h.0);
  // multi-process scans stop per part: keep what the single in-process scan would have kept
  if cfg.stop_on_first {
    if let Some(first_unlisted) = hits.iter().find(|h| !known.matches(&h.1)).map(|h| h.0) {
      hits.retain(|h| h.0 <= first_unlisted);
    }
  }
  let mut found = vec![];
  let mut seen_sigs: BTreeSet<String> = BTreeSet::new();
  for (idx, v, sc) in hits {
    // minimise first: known-finding signatures are computed from the minimised scenario
    let orig = serde_json::to_value(&sc).unwrap();
    // Code that panics inside a destructor while it is already unwinding aborts the process, and
    // minimisation re-executes the failing scenario many times: leave the un-minimised scenario
    // behind first, so the supervising parent process (see main.rs) can still report it.
    let cand_dir = format!("{}/{}", cfg.replay_dir, cfg.property);
    let cand_path = format!("{}/candidate_{}_{}.json", cand_dir, cfg.lane.replace('/', "_"), idx);
    if !cfg.replay_dir.is_empty() {
      let _ = std::fs::create_dir_all(&cand_dir);
      let cand = json!({
        "property": cfg.property, "family": fam.name(), "lane": cfg.lane, "violation": v, "batch_seed": cfg.batch_seed,
        "run_index": idx, "run_seed": run_seed(cfg.batch_seed, idx), "scenario": orig, "trace_hash": "", "decision_trace": [],
        "note": "un-minimised candidate written before minimisation; the process died while minimising or re-executing it",
      });
      if std::fs::write(&cand_path, serde_json::to_string_pretty(&cand).unwrap()).is_ok() {
        println!("CANDIDATE property={} class={} replay={}", v.property, v.class, cand_path);
      }
    }
    let (min_sc, min_v) = minimise(&*fam, &sc, &v, cfg.shrink_budget);
    let min_val = serde_json::to_value(&min_sc).unwrap();
    let sig = signature(&min_v);
    if !seen_sigs.insert(sig.clone()) {
      let _ = std::fs::remove_file(&cand_path);
      continue;
    }
    let is_known = known.matches(&min_v);
    let dir = format!("{}/{}", cfg.replay_dir, cfg.property);
    let _ = std::fs::create_dir_all(&dir);
    let h = super::rng::fnv1a(super::rng::FNV_OFFSET, scenario_size(&min_val) as u64 ^ idx.wrapping_mul(0x9E37)) ^ hash_str(&serde_json::to_string(&min_val).unwrap());
    let path = format!("{}/{}_{:016x}.json", dir, cfg.lane.replace('/', "_"), h);
    // trace of the minimised failing run
    let fam2 = fam.clone();
    let sc2 = min_sc.clone();
    let ev = super::run::on_fresh_thread(move || fam2.run(&sc2, true));
    let replay = json!({
      "property": cfg.property,
      "family": fam.name(),
      "lane": cfg.lane,
      "violation": min_v,
      "batch_seed": cfg.batch_seed,
      "run_index": idx,
      "run_seed": run_seed(cfg.batch_seed, idx),
      "scenario": min_val,
      "original_scenario_size": scenario_size(&orig),
      "minimised_scenario_size": scenario_size(&min_val),
      "steps": ev.out.stats.steps,
      "trace_hash": format!("{:016x}", ev.out.stats.trace_hash),
      "decision_trace": ev.out.stats.trace,
      "faults_fired": ev.out.faults,
      "failure": ev.out.failure.as_ref().map(|f| json!({"kind": format!("{:?}", f.kind), "message": f.message, "location": f.location})),
      "known_finding": is_known,
    });
    if ev.violations.iter().all(|x| !(x.property == min_v.property && x.class == min_v.class)) {
      harness_errors.push(format!("minimised scenario did not reproduce {} / {} on re-execution (non-determinism?)", min_v.property, min_v.class));
    }
    if std::fs::write(&path, serde_json::to_string_pretty(&replay).unwrap()).is_err() {
      harness_errors.push(format!("cannot write replay file {path}"));
    }
    let _ = std::fs::remove_file(&cand_path);
    found.push(Found {
      run_index: idx,
      violation: min_v,
      scenario: replay["scenario"].clone(),
      replay_path: path,
      minimised_from: scenario_size(&orig),
      minimised_to: scenario_size(&min_val),
    });
  }
  LaneResult { stats, found, harness_errors }
}

pub fn hash_str(s: &str) -> u64 {
  let mut h = super::rng::FNV_OFFSET;
  for b in s.bytes() {
    h ^= b as u64;
    h = h.wrapping_mul(0x100_0000_01b3);
  }
  h
}

pub fn signature(v: &Violation) -> String {
  let mut s = format!("{}|{}", v.property, v.class);
  for (k, x) in &v.facets {
    s.push_str(&format!("|{k}={x}"));
  }
  s
}

/// Scenario shrinking: greedily accept any smaller variant for which *some* schedule within the
/// budget still produces a violation of the same (property, class).
pub fn minimise<F: Family>(fam: &F, sc: &F::Sc, v: &Violation, budget: usize) -> (F::Sc, Violation) {
  let mut cur = sc.clone();
  let mut cur_v = v.clone();
  let mut spent = 0usize;
  let mut improved = true;
  while improved && spent < budget {
    improved = false;
    let cands = fam.shrink(&cur);
    'cands: for cand in cands {
      // the candidate keeps its schedule seed first, then a few fresh ones
      for k in 0..12u64 {
        if spent >= budget {
          break 'cands;
        }
        spent += 1;
        let c = if k == 0 { cand.clone() } else { fam.reseed(&cand, 0xC0FFEE ^ k.wrapping_mul(0x9E3779B97F4A7C15) ^ spent as u64) };
        let fam_run = c.clone();
        let ev = {
          // Safety of lifetimes: run synchronously on a fresh thread
          let famp: &F = fam;
          std::thread::scope(|s| {
            std::thread::Builder::new().stack_size(4 << 20).spawn_scoped(s, move || famp.run(&fam_run, false)).unwrap().join().unwrap()
          })
        };
        if let Some(x) = ev.violations.into_iter().find(|x| x.property == v.property && x.class == v.class) {
          cur = c;
          cur_v = x;
          improved = true;
          break 'cands;
        }
      }
    }
  }
  (cur, cur_v)
}
