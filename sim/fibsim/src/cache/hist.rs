//! CACHE-HIST family (C12, C17): ONE driver (sync or async) issues a generated operation sequence
//! against the real cache while the janitor, notifier and loader threads run concurrently under
//! the seeded scheduler; time is the virtual clock and moves only when the driver says so
//! (`Advance`, also in the middle of an iteration), so reads land before, exactly at and after
//! deadlines. Optionally the cache is snapshotted (through its serialised form), rebuilt from
//! the snapshot and the sequence continues on the rebuilt cache.
//!
//! Because there is a single driver the reference model is exact: a map key -> (value id,
//! counter, cost, TTL deadline interval, idle-reference interval); the only uncertainty is the
//! interval an operation occupied on the clock, and what background threads may legally do
//! (collect expired entries at any time, evict when bounded, complete a stale refresh).

use super::{make_builder, run_client, settle_and_audit, snapshot_entries, with_hist, CEv, COp, CacheSc, Client, Hist, LoaderKind, PolicyKind, Res};
use crate::chan::conc::{Knobs, ModeSer};
use crate::core::batch::{hash_str, Evaluated, Family, Violation};
use crate::core::rng::Rng;
use crate::core::run::{FailKind, RunCfg, RunOut};
use fibre_verif_rt::ctx::{self, next_seq};
use serde::{Deserialize, Serialize};
use serde_json::{json, Value};
use std::cell::RefCell;
use std::collections::{BTreeMap, BTreeSet};
use std::sync::Arc;

#[derive(Clone, Debug, Serialize, Deserialize)]
pub struct HistSc {
  /// exactly one client
  pub base: CacheSc,
  pub keys: u8,
  /// snapshot + rebuild before the operation with this index
  pub restore_at: Option<usize>,
  /// rebuild from the JSON round trip of the snapshot instead of the snapshot value itself
  pub restore_serde: bool,
}

thread_local! {
  static CUR: RefCell<Option<Arc<HistSc>>> = const { RefCell::new(None) };
  /// (event index at which the restore happened, snapshot entries, inv stamp, t0, t1)
  static RESTORE: RefCell<Option<RestoreEv>> = const { RefCell::new(None) };
}

#[derive(Clone, Debug)]
pub struct RestoreEv {
  pub before_ev: usize,
  pub entries: Vec<(u8, u32, u32, u64, Option<u64>)>,
  pub t0: u64,
  pub t1: u64,
  pub cost_after_restore: u64,
  pub stamp: u64,
}

fn hist_main() {
  let sc: Arc<HistSc> = CUR.with(|c| c.borrow().clone()).expect("no current scenario");
  ctx::set_auto_time(false);
  let base = &sc.base;
  let cl = &base.clients[0];
  let mut cache = make_builder(base).build().expect("cache build");
  let split = sc.restore_at.unwrap_or(cl.ops.len()).min(cl.ops.len());
  let first = Client { is_async: cl.is_async, ops: cl.ops[..split].to_vec() };
  let second = Client { is_async: cl.is_async, ops: cl.ops[split..].to_vec() };
  {
    let ac = cache.to_async();
    run_client(0, &first, &cache, &ac);
  }
  if sc.restore_at.is_some() {
    let stamp = next_seq();
    let t0 = fibre_verif_rt::time::now_ns();
    let snap = cache.to_snapshot();
    let entries = snapshot_entries(&snap);
    let snap = if sc.restore_serde {
      let text = serde_json::to_string(&snap).expect("snapshot serialises");
      serde_json::from_str(&text).expect("snapshot deserialises")
    } else {
      snap
    };
    let rebuilt = make_builder(base).build_from_snapshot(snap).expect("rebuild from snapshot");
    let t1 = fibre_verif_rt::time::now_ns();
    let before_ev = with_hist(|h| h.evs.len());
    RESTORE.with(|r| *r.borrow_mut() = Some(RestoreEv { before_ev, entries, t0, t1, cost_after_restore: rebuilt.metrics().current_cost, stamp }));
    drop(cache);
    cache = rebuilt;
  }
  {
    let ac = cache.to_async();
    run_client(0, &second, &cache, &ac);
    // let background refreshes finish: bounded wait until no load is in flight and stale values
    // have been replaced (judged by the oracle; here we only give the threads room)
    if base.loader != LoaderKind::None {
      for _ in 0..400 {
        shuttle::thread::yield_now();
      }
    }
    // final read of every key, recorded like a client operation
    let keys: Vec<u8> = (0..sc.keys).collect();
    let fin = Client { is_async: false, ops: keys.iter().map(|k| COp::Peek { k: *k }).collect() };
    run_client(0, &fin, &cache, &ac);
  }
  settle_and_audit(&cache, base, sc.keys);
  drop(cache);
}

// ------------------------------------------------------------------------------------------
// Reference model

#[derive(Clone, Debug)]
struct M {
  id: u32,
  ctr: u32,
  cost: u64,
  /// TTL deadline lies in [lo, hi]
  exp: Option<(u64, u64)>,
  /// idle reference (last refreshing access) lies in [lo, hi]
  refr: (u64, u64),
  /// a stale serve asked for a refresh at this stamp
  refresh_from: Option<u64>,
  /// a read already found it expired: no read may return it any more (it may still sit in the
  /// map: remove() may hand it out, compute() may touch it, fetch_with may serve it as stale)
  seen_dead: bool,
}

#[derive(Clone, Copy, PartialEq, Debug)]
enum St {
  Live,
  Maybe,
  Dead,
}

#[derive(Clone, Copy, PartialEq)]
enum Refresh {
  Yes,
  No,
  Maybe,
}

struct Judge<'a> {
  sc: &'a HistSc,
  never_evicts: bool,
  vs: Vec<Violation>,
  model: BTreeMap<u8, M>,
  /// ids that were observed or known expired
  expired_ids: BTreeSet<u32>,
  stale_serves: Vec<(u8, u32, u64)>, // key, stale id, inv stamp
  /// key -> stamp of the earliest (possible) stale serve: a background refresh load of that key
  /// begun after it is a concurrent write that may land at any later time, also over a newer
  /// insert or after a remove
  refresh_pending: BTreeMap<u8, u64>,
}

impl<'a> Judge<'a> {
  fn viol(&mut self, property: &str, class: &str, api: &str, detail: String) {
    let b = &self.sc.base;
    let mut facets = BTreeMap::new();
    facets.insert("policy".to_string(), if b.default_policy { "default".to_string() } else { format!("{:?}", b.policy) });
    facets.insert("api".to_string(), api.to_string());
    self.vs.push(Violation { property: property.into(), class: class.into(), facets, detail });
  }

  fn ttl_state(m: &M, t0: u64, t1: u64) -> St {
    match m.exp {
      None => St::Live,
      Some((lo, hi)) => {
        if t1 < lo {
          St::Live
        } else if t0 >= hi {
          St::Dead
        } else {
          St::Maybe
        }
      }
    }
  }

  fn tti_state(&self, m: &M, t0: u64, t1: u64) -> St {
    match self.sc.base.tti_ns {
      None => St::Live,
      Some(tti) => {
        if t1 < m.refr.0 + tti {
          St::Live
        } else if t0 >= m.refr.1 + tti {
          St::Dead
        } else {
          St::Maybe
        }
      }
    }
  }

  fn state(&self, m: &M, t0: u64, t1: u64) -> St {
    if m.seen_dead {
      return St::Dead;
    }
    match (Self::ttl_state(m, t0, t1), self.tti_state(m, t0, t1)) {
      (St::Dead, _) | (_, St::Dead) => St::Dead,
      (St::Live, St::Live) => St::Live,
      _ => St::Maybe,
    }
  }

  fn new_entry(&self, id: u32, cost: u64, ttl: Option<u64>, t0: u64, t1: u64) -> M {
    M { id, ctr: 0, cost, exp: ttl.map(|t| (t0 + t, t1 + t)), refr: (t0, t1), refresh_from: None, seen_dead: false }
  }

  /// A read of key `k` through `api` over the clock interval [t0, t1] returned `got`.
  #[allow(clippy::too_many_arguments)]
  fn read(&mut self, h: &Hist, e: &CEv, api: &str, k: u8, got: Option<(u32, u32)>, refresh: Refresh, swr: bool) {
    let (t0, t1) = (e.now_ns_inv, e.now_ns_ret);
    let cur = self.model.get(&k).cloned();
    match (cur, got) {
      (None, None) => {}
      (None, Some((id, _))) => {
        if self.accept_loaded(h, e, k, id, got.map(|g| g.1).unwrap_or(0), None) {
          return;
        }
        if self.expired_ids.contains(&id) {
          self.viol("C12", "expired_entry_served", api, format!("{api}({k}) at t={t0}..{t1} returned value {id}, which had expired before (op #{} {:?})", e.inv, e.op));
        } else {
          self.viol("C11", "read_of_absent_key_returned_value", api, format!("{api}({k}) returned value {id} although the key holds nothing in the model (op #{} {:?})", e.inv, e.op));
        }
      }
      (Some(m), None) => {
        let st = self.state(&m, t0, t1);
        // A refresh that a stale serve asked for lands whenever its loader task gets to insert
        // (a concurrent write, possibly over a newer insert), and its value's lifetime counts
        // from the load, not from the landing: if such a load of this key has run and nobody
        // has seen its value yet, a miss may be that value, already expired. Take it as the
        // current value from here on.
        if st == St::Live && self.never_evicts {
          if let (Some(from), Some(ttl)) = (self.refresh_pending.get(&k).copied(), self.sc.base.ttl_ns) {
            let seen: BTreeSet<u32> = h.evs.iter().filter(|x| x.inv < e.inv).flat_map(|x| super::oracle::reads_of(x)).filter(|r| r.0 == k).map(|r| r.1).collect();
            let landed = h.loads.iter().find(|l| l.key == k && l.begin > from && l.end < e.ret && l.id != m.id && !seen.contains(&l.id) && !self.expired_ids.contains(&l.id));
            if let Some(l) = landed {
              let loaded_at = self.time_of_stamp_near(h, l.begin);
              if loaded_at + ttl <= t1 {
                let id = l.id;
                let cost = l.cost;
                self.expired_ids.insert(m.id);
                let mut ne = self.new_entry(id, cost, Some(ttl), loaded_at, loaded_at);
                ne.seen_dead = true;
                self.expired_ids.insert(id);
                self.model.insert(k, ne);
                return;
              }
            }
          }
        }
        if st == St::Live && self.never_evicts {
          self.viol(
            "C12",
            "unexpired_entry_reported_missing",
            api,
            format!("{api}({k}) at t={t0}..{t1} found nothing, but value {} is unexpired (ttl deadline {:?}, idle reference {:?}, tti {:?}) and the cache never evicts", m.id, m.exp, m.refr, self.sc.base.tti_ns),
          );
        }
        if st == St::Dead || (st == St::Maybe && self.never_evicts) {
          // seen expired: expired for good (the entry itself may still sit in the map)
          self.expired_ids.insert(m.id);
          self.model.get_mut(&k).unwrap().seen_dead = true;
        }
        // otherwise: a cache that may evict "spontaneously forgets"; C11 lets a later read
        // return the latest value again (e.g. a miss caused by a rejected admission race), so
        // nothing is concluded from a miss
      }
      (Some(m), Some((id, ctr))) => {
        if id != m.id {
          if self.accept_loaded(h, e, k, id, ctr, Some(&m)) {
            return;
          }
          if self.expired_ids.contains(&id) {
            self.viol("C12", "expired_entry_served", api, format!("{api}({k}) at t={t0}..{t1} returned value {id}, which had expired before; the key's current value is {}", m.id));
          } else {
            self.viol("C11", "read_returned_wrong_value", api, format!("{api}({k}) returned value {id}; the key's current value is {}", m.id));
          }
          return;
        }
        let ttl = Self::ttl_state(&m, t0, t1);
        let tti = self.tti_state(&m, t0, t1);
        let mut stale_ok = false;
        if swr && ttl != St::Live && tti != St::Dead {
          if let (Some(grace), Some((_, hi))) = (self.sc.base.swr_ns, m.exp) {
            if t0 < hi + grace {
              stale_ok = true;
            }
          }
        }
        if (ttl == St::Dead || tti == St::Dead || m.seen_dead) && !(stale_ok && tti != St::Dead) {
          self.viol(
            "C12",
            "expired_entry_served",
            api,
            format!(
              "{api}({k}) at t={t0}..{t1} returned value {id} at or after its expiry (ttl deadline {:?}, idle reference {:?} + tti {:?}{})",
              m.exp,
              m.refr,
              self.sc.base.tti_ns,
              if swr { format!(", stale grace {:?}", self.sc.base.swr_ns) } else { String::new() }
            ),
          );
        }
        if ctr != m.ctr {
          self.viol("C11", "counter_mismatch", api, format!("{api}({k}) returned value {id} with counter {ctr}; {} compute() calls succeeded on it", m.ctr));
        }
        let mm = self.model.get_mut(&k).unwrap();
        if stale_ok && ttl == St::Dead {
          // definitely a stale serve: a refresh must follow
          if mm.refresh_from.is_none() {
            mm.refresh_from = Some(e.inv);
          }
          self.refresh_pending.entry(k).or_insert(e.inv);
          self.stale_serves.push((k, id, e.inv));
        } else if stale_ok && ttl == St::Maybe && mm.refresh_from.is_none() {
          // possibly stale: a refresh may have been triggered
          mm.refresh_from = Some(e.inv);
          self.refresh_pending.entry(k).or_insert(e.inv);
        }
        match refresh {
          Refresh::Yes => {
            if ttl == St::Live || !swr {
              mm.refr = (t0.max(mm.refr.0), t1.max(mm.refr.1));
            } else {
              mm.refr.1 = mm.refr.1.max(t1);
            }
          }
          Refresh::Maybe => mm.refr.1 = mm.refr.1.max(t1),
          Refresh::No => {}
        }
      }
    }
  }

  /// A read returned an id the model does not hold for `k`: legal iff it is a value the loader
  /// produced for `k` in a refresh that a stale serve asked for (or in this very operation).
  fn accept_loaded(&mut self, h: &Hist, e: &CEv, k: u8, id: u32, got_ctr: u32, cur: Option<&M>) -> bool {
    let Some(l) = h.loads.iter().find(|l| l.id == id) else { return false };
    if l.key != k {
      self.viol("C11", "loaded_value_under_wrong_key", "loader", format!("value {id} was loaded for key {} but read under key {k}", l.key));
      return true;
    }
    let in_op = l.begin > e.inv && matches!(e.op, COp::FetchWith { .. });
    let from = cur.and_then(|m| m.refresh_from).or_else(|| self.refresh_pending.get(&k).copied());
    let refresh_ok = from.map(|f| l.begin > f).unwrap_or(false);
    if !in_op && !refresh_ok {
      return false;
    }
    let (t0, t1) = (e.now_ns_inv, e.now_ns_ret);
    if in_op {
      if let Some(m) = cur {
        if self.state(m, t0, t1) == St::Live && self.never_evicts && m.refresh_from.is_none() {
          self.viol("C12", "unexpired_entry_reported_missing", "fetch_with", format!("fetch_with({k}) at t={t0}..{t1} ran the loader although value {} is unexpired", m.id));
        }
      }
    }
    if let Some(m) = cur {
      self.expired_ids.insert(m.id);
    }
    // inserted some time between the refresh request (or the start of this op) and now
    let lo = if in_op { t0 } else { self.time_of_stamp(h, from.unwrap_or(e.inv)).min(t0) };
    let mut ne = self.new_entry(id, l.cost, self.sc.base.ttl_ns, lo, t1);
    // compute() calls that succeeded since the load began may have hit the loaded value
    let max_ctr = h.evs.iter().filter(|x| x.ret > l.begin && x.inv < e.ret && matches!(x.op, COp::Compute { k: kk } if kk == k) && x.res == Res::Bool(true)).count() as u32;
    if got_ctr > max_ctr {
      self.viol("C11", "counter_mismatch", "loader", format!("loaded value {id} of key {k} was read with counter {got_ctr}; at most {max_ctr} compute() calls can have touched it"));
    }
    ne.ctr = got_ctr;
    self.model.insert(k, ne);
    true
  }

  /// virtual time at (or just before) an event stamp that is not itself an operation's
  /// invocation stamp (a load's begin): the clock reading of the latest operation invoked before it
  fn time_of_stamp_near(&self, h: &Hist, stamp: u64) -> u64 {
    h.evs.iter().filter(|x| x.inv <= stamp).map(|x| x.now_ns_inv).max().unwrap_or(0)
  }

  fn time_of_stamp(&self, h: &Hist, stamp: u64) -> u64 {
    h.evs.iter().find(|x| x.inv == stamp).map(|x| x.now_ns_inv).unwrap_or(0)
  }

  fn enumeration(&mut self, h: &Hist, e: &CEv, api: &str, items: &[(u8, u32, u32)]) {
    self.enumeration_with(h, e, api, items, &[])
  }

  /// `optional`: keys the enumerating thread removed itself while enumerating - they may or may
  /// not have been yielded (with their current value if so) and are gone afterwards.
  fn enumeration_with(&mut self, h: &Hist, e: &CEv, api: &str, items: &[(u8, u32, u32)], optional: &[u8]) {
    let mut seen: BTreeMap<u8, u32> = BTreeMap::new();
    for (k, _, _) in items {
      *seen.entry(*k).or_default() += 1;
    }
    for (k, n) in &seen {
      if *n > 1 {
        self.viol("C17", "entry_enumerated_twice", api, format!("{api} yielded key {k} {n} times ({items:?})"));
      }
    }
    for k in 0..self.sc.keys {
      let got = items.iter().find(|x| x.0 == k).map(|x| (x.1, x.2));
      if optional.contains(&k) && got.is_none() {
        continue;
      }
      // classify a missing live entry as C17 (enumeration), everything else as usual
      let before = self.vs.len();
      self.read(h, e, api, k, got, Refresh::Maybe, false);
      let mut also = vec![];
      for v in &mut self.vs[before..] {
        if v.class == "unexpired_entry_reported_missing" {
          v.property = "C17".into();
          v.class = "live_entry_not_enumerated".into();
        } else if v.class == "expired_entry_served" {
          // an enumeration that yields an expired entry breaks C12 (a read returned it) and
          // C17 ("... and omit expired ones") alike
          let mut c = v.clone();
          c.property = "C17".into();
          c.class = "expired_entry_enumerated".into();
          also.push(c);
        }
      }
      self.vs.extend(also);
    }
  }
}

pub fn evaluate(sc: &HistSc, h: &Hist, restore: &Option<RestoreEv>, out: &RunOut) -> Vec<Violation> {
  let b = &sc.base;
  let never_evicts = match b.capacity {
    None => true,
    Some(c) => c >= 1000 && !b.default_policy && b.policy != PolicyKind::TinyLfu,
  };
  let mut j = Judge { sc, never_evicts, vs: vec![], model: BTreeMap::new(), expired_ids: BTreeSet::new(), stale_serves: vec![], refresh_pending: BTreeMap::new() };
  if let Some(f) = &out.failure {
    let class = match f.kind {
      FailKind::Deadlock => "deadlock",
      FailKind::StepBound => "step_bound",
      FailKind::Panic => "panic",
    };
    let mut facets = BTreeMap::new();
    facets.insert("policy".to_string(), if b.default_policy { "default".to_string() } else { format!("{:?}", b.policy) });
    if f.kind == FailKind::Panic {
      facets.insert("where".to_string(), f.location.clone());
    }
    let prop = if sc.restore_at.is_some() { "C17" } else { "C12" };
    return vec![Violation { property: prop.into(), class: class.into(), facets, detail: format!("{} at {}", f.message, f.location) }];
  }
  for (i, e) in h.evs.iter().enumerate() {
    if let Some(r) = restore {
      if r.before_ev == i {
        restore_step(&mut j, h, r);
      }
    }
    let (t0, t1) = (e.now_ns_inv, e.now_ns_ret);
    match (&e.op, &e.res) {
      (COp::Insert { k, cost }, _) => {
        let ne = j.new_entry(e.wrote[0].1, *cost, b.ttl_ns, t0, t1);
        if let Some(old) = j.model.insert(*k, ne) {
          j.expired_ids.remove(&old.id);
        }
      }
      (COp::InsertTtl { k, cost, ttl_ns }, _) => {
        let ne = j.new_entry(e.wrote[0].1, *cost, Some((*ttl_ns).max(1)), t0, t1);
        j.model.insert(*k, ne);
      }
      (COp::MultiInsert { items }, _) => {
        for (n, (k, cost)) in items.iter().enumerate() {
          let ne = j.new_entry(e.wrote[n].1, *cost, b.ttl_ns, t0, t1);
          j.model.insert(*k, ne);
        }
      }
      (COp::Get { k }, r) => j.read(h, e, "get", *k, val(r), Refresh::Yes, false),
      (COp::Fetch { k }, r) => j.read(h, e, "fetch", *k, val(r), Refresh::Yes, false),
      (COp::Peek { k }, r) => j.read(h, e, "peek", *k, val(r), Refresh::No, false),
      (COp::EntryGet { k }, r) => j.read(h, e, "entry", *k, val(r), Refresh::Maybe, false),
      (COp::FetchWith { k }, r) => {
        let got = val(r);
        match (j.model.get(k).cloned(), got) {
          (None, Some((id, _))) => {
            if !j.accept_loaded(h, e, *k, id, got.map(|g| g.1).unwrap_or(0), None) {
              j.viol("C11", "read_of_absent_key_returned_value", "fetch_with", format!("fetch_with({k}) returned value {id} that neither the model holds nor the loader produced"));
            }
          }
          _ => j.read(h, e, "fetch_with", *k, got, Refresh::Yes, true),
        }
      }
      (COp::MultiGet { ks }, Res::Many(v)) => {
        let mut asked: Vec<u8> = ks.clone();
        asked.sort();
        asked.dedup();
        for k in asked {
          let got = v.iter().find(|x| x.0 == k).map(|x| (x.1, x.2));
          j.read(h, e, "multiget", k, got, Refresh::Yes, false);
        }
      }
      (COp::Iter { .. }, Res::Many(v)) => j.enumeration(h, e, if b.clients[0].is_async { "iter_stream" } else { "iter" }, v),
      (COp::IterStep { .. }, Res::Many(v)) => j.enumeration(h, e, "iter_with_clock_steps", v),
      (COp::IterRemove { ks, .. }, Res::Many(v)) => {
        j.enumeration_with(h, e, "iter_with_removals_between_batches", v, ks);
        for k in ks {
          j.model.remove(k);
        }
      }
      (COp::IterSnapshot, Res::Many(v)) => j.enumeration(h, e, "iter_snapshot", v),
      (COp::Snapshot, Res::Snap(s)) => snapshot_check(&mut j, h, e, "to_snapshot", s, t0, t1),
      (COp::Compute { k }, Res::Bool(done)) => {
        if *done {
          match j.model.get_mut(k) {
            Some(m) => {
              m.ctr += 1;
              m.refr.1 = m.refr.1.max(t1);
            }
            None => j.viol("C11", "compute_on_absent_key", "compute", format!("compute({k}) reported success although the key holds nothing in the model")),
          }
        }
      }
      (COp::EntryOrInsert { k, cost }, Res::Val(id, ctr)) | (COp::EntryOrInsertWith { k, cost, .. }, Res::Val(id, ctr)) => {
        if !e.wrote.is_empty() {
          // inserted its own value: the key must not have held a live entry
          if let Some(m) = j.model.get(k).cloned() {
            if j.state(&m, t0, t1) == St::Live && j.never_evicts {
              j.viol("C12", "unexpired_entry_reported_missing", "entry", format!("entry({k}).or_insert at t={t0}..{t1} inserted although value {} is unexpired", m.id));
            }
            j.expired_ids.insert(m.id);
          }
          let ne = j.new_entry(*id, *cost, b.ttl_ns, t0, t1);
          j.model.insert(*k, ne);
        } else {
          j.read(h, e, "entry", *k, Some((*id, *ctr)), Refresh::Maybe, false);
        }
      }
      (COp::Remove { k }, r) => {
        // the removed value may be one a background refresh has just installed
        if let Some((id, _)) = val(r) {
          let cur = j.model.get(k).cloned();
          if cur.as_ref().map(|m| m.id) != Some(id) && h.loads.iter().any(|l| l.id == id) && j.accept_loaded(h, e, *k, id, val(r).map(|g| g.1).unwrap_or(0), cur.as_ref()) {
            j.model.remove(k);
            continue;
          }
        }
        if let Some(m) = j.model.remove(k) {
          match val(r) {
            Some((id, _)) if id != m.id => j.viol("C11", "read_returned_wrong_value", "remove", format!("remove({k}) returned value {id}; the key's current value is {}", m.id)),
            None if j.state(&m, t0, t1) == St::Live && j.never_evicts => j.viol("C12", "unexpired_entry_reported_missing", "remove", format!("remove({k}) at t={t0}..{t1} found nothing, but value {} is unexpired", m.id)),
            _ => {}
          }
        } else if let Some((id, _)) = val(r) {
          if !h.loads.iter().any(|l| l.id == id && l.key == *k) {
            j.viol("C11", "read_of_absent_key_returned_value", "remove", format!("remove({k}) returned value {id} although the key holds nothing in the model"));
          }
        }
      }
      (COp::Invalidate { k }, _) => {
        j.model.remove(k);
      }
      (COp::MultiRemove { ks }, _) => {
        for k in ks {
          j.model.remove(k);
        }
      }
      (COp::Clear, _) => j.model.clear(),
      _ => {}
    }
  }
  if let Some(r) = restore {
    if r.before_ev >= h.evs.len() {
      restore_step(&mut j, h, r);
    }
  }
  // every definite stale serve must have been followed by a refresh load of that key
  for (k, id, inv) in j.stale_serves.clone() {
    if !h.loads.iter().any(|l| l.key == k && l.begin > inv) {
      // a refresh already in flight (requested by an earlier stale serve) also counts
      let earlier = h.loads.iter().any(|l| l.key == k && l.end > inv);
      if !earlier {
        j.viol("C12", "stale_served_without_refresh", "fetch_with", format!("fetch_with({k}) served the stale value {id} (op #{inv}) but no load of key {k} started afterwards"));
      }
    }
  }
  let mut vs = j.vs;
  // capacity / accounting of the (rebuilt) cache at quiescence: the C13 rules, attributed to C17
  // when the cache under test was rebuilt from a snapshot
  let mut acct = vec![];
  super::oracle::accounting_rules(b, h, !(b.ttl_ns.is_none() && b.tti_ns.is_none() && !h.evs.iter().any(|e| matches!(e.op, COp::InsertTtl { .. }))), &mut acct);
  for mut v in acct {
    if sc.restore_at.is_some() {
      v.property = "C17".into();
      v.class = format!("rebuilt_cache_{}", v.class);
    }
    vs.push(v);
  }
  vs
}

fn val(r: &Res) -> Option<(u32, u32)> {
  match r {
    Res::Val(id, c) => Some((*id, *c)),
    _ => None,
  }
}

fn snapshot_check(j: &mut Judge, h: &Hist, e: &CEv, api: &str, s: &[(u8, u32, u32, u64, Option<u64>)], t0: u64, t1: u64) {
  let items: Vec<(u8, u32, u32)> = s.iter().map(|x| (x.0, x.1, x.2)).collect();
  j.enumeration(h, e, api, &items);
  snapshot_entry_rules(j, api, s, t0, t1);
}

fn snapshot_entry_rules(j: &mut Judge, api: &str, s: &[(u8, u32, u32, u64, Option<u64>)], t0: u64, _t1: u64) {
  for (k, id, _, cost, rem) in s {
    let Some(m) = j.model.get(k).cloned() else { continue };
    if m.id != *id {
      continue;
    }
    if *cost != m.cost {
      j.viol("C17", "snapshot_cost_wrong", api, format!("{api}: key {k} value {id} recorded with cost {cost}, it was inserted with cost {}", m.cost));
    }
    if let Some((_, hi)) = m.exp {
      match rem {
        None => j.viol("C17", "snapshot_lifetime_longer", api, format!("{api}: key {k} value {id} has a ttl deadline ({:?}) but the snapshot records no remaining lifetime", m.exp)),
        Some(r) if t0 + r > hi => j.viol("C17", "snapshot_lifetime_longer", api, format!("{api} at t={t0}: key {k} value {id} recorded with {r} ns remaining, its deadline is at most {hi}")),
        _ => {}
      }
    }
  }
}

fn restore_step(j: &mut Judge, h: &Hist, r: &RestoreEv) {
  // the snapshot itself
  let fake = CEv { client: 0, op: COp::Snapshot, wrote: vec![], res: Res::Unit, inv: r.stamp, ret: r.stamp, now_ns_inv: r.t0, now_ns_ret: r.t1 };
  let items: Vec<(u8, u32, u32)> = r.entries.iter().map(|x| (x.0, x.1, x.2)).collect();
  j.enumeration(h, &fake, "to_snapshot(before rebuild)", &items);
  snapshot_entry_rules(j, "to_snapshot(before rebuild)", &r.entries, r.t0, r.t1);
  // rebuilt cache: content = snapshot; counters, costs and deadlines carry over; idle
  // references may restart
  let expect: u64 = r.entries.iter().map(|x| x.3).sum();
  // (a bounded rebuilt cache may already have evicted; its accounting is judged by the drain
  // audit at the end)
  if (j.never_evicts && r.cost_after_restore != expect) || r.cost_after_restore > expect {
    j.viol("C17", "rebuilt_cache_current_cost_wrong", "build_from_snapshot", format!("the rebuilt cache reports current_cost {} but the snapshot entries cost {expect}", r.cost_after_restore));
  }
  let keys: Vec<u8> = j.model.keys().copied().collect();
  for k in keys {
    if !r.entries.iter().any(|x| x.0 == k) {
      // not in the snapshot (expired): not in the rebuilt cache
      if let Some(m) = j.model.remove(&k) {
        j.expired_ids.insert(m.id);
      }
    } else if let Some(m) = j.model.get_mut(&k) {
      m.refr.1 = m.refr.1.max(r.t1);
      m.refresh_from = None;
    }
  }
}

// ------------------------------------------------------------------------------------------

pub struct HistFamily {
  /// emphasise snapshot / rebuild / enumeration (C17) or expiry reads (C12)
  pub snapshots: bool,
  pub faults: bool,
  /// stale-while-revalidate focus: loader, short TTL, grace window, several keys going stale together and runs of
  /// fetch_with over them, so that a refresh trigger meets the pending-load stripe while it is busy with another key
  pub stale_focus: bool,
}

impl HistFamily {
  fn gen_op(&self, rng: &mut Rng, keys: u8, loader: bool) -> COp {
    let k = rng.below(keys as u64) as u8;
    let cost = *rng.pick(&[1u64, 1, 1, 2, 3, 0]);
    const ADV: [u64; 14] = [1, 999, 1_000, 1_001, 1_999, 2_000, 2_001, 4_999, 5_000, 5_001, 10_000, 20_000, 50_000, 3];
    if self.stale_focus {
      return match rng.below(20) {
        0..=3 => COp::Insert { k, cost },
        4 => COp::MultiInsert { items: (0..rng.range(2, keys as u64) as u8).map(|i| (i, 1)).collect() },
        5..=12 => COp::FetchWith { k },
        13..=15 => COp::Advance { ns: *rng.pick(&[999u64, 1_000, 1_001, 1_999, 3, 5_000]) },
        16 => COp::Get { k },
        17 => COp::Yield,
        18 => COp::RunMaintenance,
        _ => COp::Peek { k },
      };
    }
    loop {
      let op = match rng.below(30) {
        0..=4 => COp::Insert { k, cost },
        5 | 6 => COp::InsertTtl { k, cost, ttl_ns: *rng.pick(&[1_000u64, 5_000, 20_000]) },
        7 | 8 => COp::Get { k },
        9 => COp::Fetch { k },
        10 => COp::Peek { k },
        11 => COp::EntryGet { k },
        12 => {
          if rng.chance(1, 2) {
            COp::EntryOrInsert { k, cost }
          } else {
            COp::EntryOrInsertWith { k, cost, yields: rng.below(3) as u8 }
          }
        }
        13 => COp::Compute { k },
        14 => COp::MultiGet { ks: (0..rng.range(1, 4)).map(|_| rng.below(keys as u64) as u8).collect() },
        15 => COp::Remove { k },
        16..=20 => COp::Advance { ns: *rng.pick(&ADV) },
        21 => COp::RunMaintenance,
        22 => COp::Iter { batch: rng.range(1, 4) as u8 },
        23 => COp::IterSnapshot,
        24 if self.snapshots => COp::Snapshot,
        25 => {
          if rng.chance(1, 2) {
            COp::IterStep { batch: rng.range(1, 3) as u8, after: rng.range(1, 4) as u8, ns: *rng.pick(&ADV) }
          } else {
            // the iterating thread invalidates a run of keys between two batches
            let n = rng.range(1, keys as u64) as u8;
            let start = rng.below(keys as u64) as u8;
            COp::IterRemove { batch: rng.range(1, 3) as u8, after: rng.range(1, 3) as u8, ks: (0..n).map(|i| (start + i) % keys).collect() }
          }
        }
        26 | 27 if loader => COp::FetchWith { k },
        28 => {
          // a run of distinct keys: fills several shards at once
          let n = rng.range(2, keys as u64) as u8;
          COp::MultiInsert { items: (0..n).map(|i| (i, *rng.pick(&[1u64, 1, 2]))).collect() }
        }
        29 => COp::Yield,
        _ => continue,
      };
      return op;
    }
  }
}

impl Family for HistFamily {
  type Sc = HistSc;

  fn name(&self) -> &'static str {
    "CACHE-HIST"
  }

  fn rule(&self) -> &'static str {
    "one case = one generated cache configuration (1-8 shards, unbounded / never-evicting / small bounded with any policy, TTL / TTI / per-insert TTL / stale-while-revalidate knobs, timer-wheel and janitor knobs) driven by ONE sync or async client with 4-14 operations over 4-12 keys (all read APIs incl. entry, multiget, iter with batch sizes 1-4, async stream, iter_snapshot, to_snapshot; clock advances to just before / exactly at / after deadlines, also between iterator batches), optionally snapshot -> (JSON round trip) -> rebuild in the middle, with the janitor / notifier / loader threads scheduled by the seeded scheduler; non-trivial = >=2 writes, >=2 reads and (a clock advance or a rebuild); distinct = distinct scheduler decision-trace hash"
  }

  fn needs_fresh_thread(&self) -> bool {
    false
  }

  fn max_steps(&self) -> usize {
    600_000
  }

  fn stack_size(&self) -> usize {
    0x40000
  }

  fn generate(&self, rng: &mut Rng) -> HistSc {
    let keys = *rng.pick(&[4u8, 6, 8, 12]);
    let shards = *rng.pick(&[1usize, 2, 4, 8]);
    let capacity = match rng.below(10) {
      0..=5 => None,
      6 => Some(1000),
      _ => Some(*rng.pick(&[2u64, 3, 4, 6, 8])),
    };
    let capacity = if self.stale_focus { None } else { capacity };
    let policy = if capacity.is_none() { *rng.pick(&[PolicyKind::Null, PolicyKind::Null, PolicyKind::Lru, PolicyKind::Fifo, PolicyKind::Sieve]) } else { *rng.pick(&PolicyKind::ALL[..8]) };
    let loader = if rng.chance(1, 3) || self.stale_focus { *rng.pick(&[LoaderKind::Sync, LoaderKind::Async]) } else { LoaderKind::None };
    let n = rng.range(4, 14);
    let ops: Vec<COp> = (0..n).map(|_| self.gen_op(rng, keys, loader != LoaderKind::None)).collect();
    let restore_at = if self.snapshots && rng.chance(1, 2) { Some(rng.range(1, n) as usize) } else { None };
    let ttl_ns = if self.stale_focus { Some(1_000) } else if rng.chance(3, 5) { Some(*rng.pick(&[1_000u64, 5_000, 20_000])) } else { None };
    let base = CacheSc {
      shards,
      capacity,
      policy,
      default_policy: capacity.is_some() && rng.chance(1, 8),
      ttl_ns,
      tti_ns: if !self.stale_focus && rng.chance(2, 5) { Some(*rng.pick(&[2_000u64, 10_000])) } else { None },
      swr_ns: if ttl_ns.is_some() && loader != LoaderKind::None && (self.stale_focus || rng.chance(2, 3)) { Some(*rng.pick(&[1_000u64, 10_000])) } else { None },
      listener: rng.chance(1, 4),
      slow_listener_yields: 0,
      loader,
      loader_yields: rng.below(3) as u8,
      janitor_tick_ns: *rng.pick(&[100u64, 1_000, 1_000_000]),
      maintenance_chance: *rng.pick(&[1u32, 1, 2, 8]),
      introspection_maintenance: rng.chance(1, 2),
      timer_wheel_size: *rng.pick(&[1usize, 2, 4, 60]),
      timer_tick_ns: *rng.pick(&[100u64, 1_000, 10_000]),
      auto_time: false,
      clients: vec![Client { is_async: rng.chance(1, 3), ops }],
      knobs: {
        let mut k = Knobs::gen(rng, self.faults, 60 * (n as u32 + 8));
        k.max_steps = 600_000;
        k
      },
    };
    HistSc { base, keys, restore_at, restore_serde: rng.chance(1, 2) }
  }

  fn begin(&self, sc: &HistSc, record_trace: bool) -> RunCfg {
    super::reset_hist();
    RESTORE.with(|r| *r.borrow_mut() = None);
    CUR.with(|c| *c.borrow_mut() = Some(Arc::new(sc.clone())));
    super::set_current(Some(Arc::new(sc.base.clone())));
    sc.base.knobs.run_cfg(record_trace)
  }

  fn body(&self) -> Arc<dyn Fn() + Send + Sync> {
    Arc::new(hist_main)
  }

  fn finish(&self, sc: &HistSc, out: RunOut) -> Evaluated {
    CUR.with(|c| *c.borrow_mut() = None);
    super::set_current(None);
    let hist = super::take_hist();
    let restore = RESTORE.with(|r| r.borrow_mut().take());
    let mut out = out;
    super::cache_reach(&hist, &mut out);
    if restore.is_some() {
      *out.probes.entry("reach_rebuilt_from_snapshot").or_insert(0) += 1;
    }
    if std::env::var("VERIF_DUMP").is_ok() {
      for (i, e) in hist.evs.iter().enumerate() {
        if restore.as_ref().map(|r| r.before_ev == i).unwrap_or(false) {
          println!("  -- rebuild from snapshot: {:?}", restore);
        }
        println!("  ev [{}-{}] t={}..{} {:?} wrote={:?} -> {:?}", e.inv, e.ret, e.now_ns_inv, e.now_ns_ret, e.op, e.wrote, e.res);
      }
      for l in &hist.loads {
        println!("  load {:?}", l);
      }
      for n in &hist.notes {
        println!("  note {:?}", n);
      }
      println!("  final={:?} failure={:?}", hist.fin, out.failure);
    }
    let violations = evaluate(sc, &hist, &restore, &out);
    let b = &sc.base;
    let mut states: Vec<u64> = vec![];
    for e in &hist.evs {
      let kind = format!("{:?}", e.op);
      let kind = kind.split(|c: char| c == ' ' || c == '{').next().unwrap_or("").to_string();
      let r = match &e.res {
        Res::None => "none",
        Res::Val(..) => "val",
        Res::Bool(true) => "true",
        Res::Bool(false) => "false",
        Res::Many(v) if v.is_empty() => "empty",
        Res::Many(_) => "many",
        Res::Unit => "unit",
        Res::Metrics { .. } => "metrics",
        Res::Snap(v) if v.is_empty() => "snap-empty",
        Res::Snap(_) => "snap",
      };
      states.push(hash_str(&format!("{}|{}|{}|{}|{}|{}|{}", b.shards, kind, r, b.clients[0].is_async, b.ttl_ns.is_some(), b.tti_ns.is_some(), restore.as_ref().map(|x| x.before_ev <= hist.evs.len()).unwrap_or(false))));
    }
    states.sort();
    states.dedup();
    let writes = hist.evs.iter().filter(|e| !e.wrote.is_empty()).count();
    let reads = hist.evs.iter().filter(|e| matches!(e.res, Res::Val(..) | Res::Many(_) | Res::Snap(_) | Res::None)).count();
    let moved = hist.evs.iter().any(|e| matches!(e.op, COp::Advance { .. } | COp::IterStep { .. })) || restore.is_some();
    Evaluated { out, violations, states, nontrivial: writes >= 2 && reads >= 2 && moved }
  }

  fn shrink(&self, sc: &HistSc) -> Vec<HistSc> {
    let mut out = vec![];
    let ops = &sc.base.clients[0].ops;
    if ops.len() > 1 {
      for oi in 0..ops.len() {
        let mut c = sc.clone();
        c.base.clients[0].ops.remove(oi);
        if let Some(r) = c.restore_at {
          if oi < r {
            c.restore_at = Some(r - 1);
          }
        }
        out.push(c);
      }
    }
    if sc.restore_at.is_some() {
      let mut c = sc.clone();
      c.restore_at = None;
      out.push(c);
      if sc.restore_serde {
        let mut c = sc.clone();
        c.restore_serde = false;
        out.push(c);
      }
    }
    if sc.base.clients[0].is_async {
      let mut c = sc.clone();
      c.base.clients[0].is_async = false;
      out.push(c);
    }
    if sc.base.shards > 1 {
      let mut c = sc.clone();
      c.base.shards = 1;
      out.push(c);
    }
    if sc.base.listener {
      let mut c = sc.clone();
      c.base.listener = false;
      out.push(c);
    }
    if sc.base.tti_ns.is_some() {
      let mut c = sc.clone();
      c.base.tti_ns = None;
      out.push(c);
    }
    if sc.base.ttl_ns.is_some() && sc.base.swr_ns.is_none() {
      let mut c = sc.clone();
      c.base.ttl_ns = None;
      out.push(c);
    }
    if sc.base.loader != LoaderKind::None && !ops.iter().any(|o| matches!(o, COp::FetchWith { .. })) {
      let mut c = sc.clone();
      c.base.loader = LoaderKind::None;
      c.base.swr_ns = None;
      out.push(c);
    }
    if sc.base.introspection_maintenance {
      let mut c = sc.clone();
      c.base.introspection_maintenance = false;
      out.push(c);
    }
    if sc.keys > 4 && !ops.iter().any(|o| format!("{o:?}").contains("MultiInsert")) {
      let mut c = sc.clone();
      c.keys = 4;
      if c.base.clients[0].ops.iter().all(|o| max_key(o) < 4) {
        out.push(c);
      }
    }
    let k = &sc.base.knobs;
    if k.spurious_rate > 0 || k.cas_weak > 0 || k.park_return > 0 {
      let mut c = sc.clone();
      c.base.knobs.spurious_rate = 0;
      c.base.knobs.cas_weak = 0;
      c.base.knobs.park_return = 0;
      out.push(c);
    }
    if k.mode != ModeSer::Uniform {
      let mut c = sc.clone();
      c.base.knobs.mode = ModeSer::Uniform;
      out.push(c);
    }
    out.retain(|c| !c.base.clients[0].ops.is_empty());
    out
  }

  fn reseed(&self, sc: &HistSc, seed: u64) -> HistSc {
    let mut c = sc.clone();
    c.base.knobs.seed = seed;
    c
  }

  fn components(&self) -> Value {
    json!({
      "real": ["fibre_cache handles (sync + async), entry API, sharded store, janitor, notifier, loader, timer wheel, policies, iterators (iter / stream / iter_snapshot), to_snapshot + build_from_snapshot incl. serde round trip",
               "fibre::sync::{HybridMutex, HybridRwLock}, fibre::mpsc under the simulated primitives"],
      "stub": ["std::thread / park / std::sync::mpsc (janitor signal) -> fibre_verif_rt", "cache epoch clock -> virtual clock (moves only on Advance)",
               "parking_lot::Mutex -> shuttle Mutex", "ahash / rand -> deterministic shims", "rayon -> sequential shim", "tokio::task::yield_now -> shuttle yield", "TaskSpawner -> shuttle::future::spawn"],
    })
  }
}

fn max_key(o: &COp) -> u8 {
  match o {
    COp::Insert { k, .. } | COp::InsertTtl { k, .. } | COp::Get { k } | COp::Fetch { k } | COp::Peek { k } | COp::Remove { k } | COp::Invalidate { k } | COp::Compute { k } | COp::EntryOrInsert { k, .. } | COp::EntryOrInsertWith { k, .. } | COp::EntryGet { k } | COp::FetchWith { k } => *k,
    COp::MultiGet { ks } | COp::MultiRemove { ks } | COp::IterRemove { ks, .. } => ks.iter().copied().max().unwrap_or(0),
    COp::MultiInsert { items } => items.iter().map(|x| x.0).max().unwrap_or(0),
    _ => 0,
  }
}
