//! Executes one run (one scenario under one schedule) on the current OS thread and classifies how
//! it ended.

use super::sched::{Mode, SchedShared, SchedStats, SimScheduler};
use fibre_verif_rt::ctx::{self, FaultRates};
use std::cell::RefCell;
use std::collections::BTreeMap;
use std::panic::{self, AssertUnwindSafe};
use std::rc::Rc;
use std::sync::Once;

#[derive(Clone, Debug)]
pub struct RunCfg {
  pub seed: u64,
  pub mode: Mode,
  /// F1 rate at the scheduler (1/65536 per decision)
  pub spurious_rate: u32,
  pub rates: FaultRates,
  pub max_steps: usize,
  pub record_trace: bool,
  pub guide: Option<Vec<u16>>,
  pub start_ns: u64,
  pub stack_size: usize,
}

impl RunCfg {
  pub fn new(seed: u64) -> Self {
    RunCfg {
      seed,
      mode: Mode::Uniform,
      spurious_rate: 0,
      rates: FaultRates::default(),
      max_steps: 200_000,
      record_trace: false,
      guide: None,
      start_ns: 1_000_000_000,
      stack_size: 0x20000,
    }
  }
}

#[derive(Clone, Debug, PartialEq)]
pub enum FailKind {
  /// shuttle: every simulated thread/task is blocked
  Deadlock,
  /// the step bound was exceeded (bounded-liveness failure / livelock)
  StepBound,
  /// a panic inside library or harness code
  Panic,
}

#[derive(Clone, Debug)]
pub struct Failure {
  pub kind: FailKind,
  pub message: String,
  pub location: String,
}

#[derive(Debug)]
pub struct RunOut {
  pub stats: SchedStats,
  pub faults: BTreeMap<&'static str, u64>,
  pub probes: BTreeMap<&'static str, u64>,
  pub vtime_ns: u64,
  pub no_park_violations: u64,
  pub failure: Option<Failure>,
}

thread_local! {
  static LAST_PANIC: RefCell<Option<(String, String)>> = const { RefCell::new(None) };
  static IN_RUN: std::cell::Cell<bool> = const { std::cell::Cell::new(false) };
  /// lets scenario code reach the scheduler's shared state (e.g. to arm the starve mode)
  static SCHED: RefCell<Option<SchedShared>> = const { RefCell::new(None) };
}

pub fn with_sched<R>(f: impl FnOnce(&mut SchedStats) -> R) -> Option<R> {
  SCHED.with(|s| s.borrow().as_ref().map(|sh| f(&mut sh.borrow_mut())))
}

static HOOK: Once = Once::new();

/// Install the harness panic hook. Must run after shuttle installed its own (which happens on the
/// first `Runner::run`), so one trivial execution is done first.
pub fn init_process() {
  HOOK.call_once(|| {
    let shared: SchedShared = Rc::new(RefCell::new(SchedStats::default()));
    let s = SimScheduler::new(0, Mode::Uniform, 0, false, shared);
    let mut c = shuttle::Config::new();
    c.failure_persistence = shuttle::FailurePersistence::None;
    c.silence_warnings = true;
    shuttle::Runner::new(s, c).run(|| {});
    panic::set_hook(Box::new(|info| {
      let msg = if let Some(s) = info.payload().downcast_ref::<&str>() {
        s.to_string()
      } else if let Some(s) = info.payload().downcast_ref::<String>() {
        s.clone()
      } else {
        "<non-string panic>".to_string()
      };
      let loc = info.location().map(|l| format!("{}:{}", l.file(), l.line())).unwrap_or_default();
      if std::env::var("VERIF_BT").is_ok() {
        println!("PANIC {msg} at {loc}\n{}", std::backtrace::Backtrace::force_capture());
      }
      if IN_RUN.with(|r| r.get()) {
        LAST_PANIC.with(|p| {
          let mut p = p.borrow_mut();
          // keep the first panic of the run (later ones are consequences)
          if p.is_none() {
            *p = Some((msg, loc));
          }
        });
      } else {
        println!("HARNESS-PANIC: {msg} at {loc}");
      }
    }));
  });
}

pub fn execute<F>(cfg: &RunCfg, body: F) -> RunOut
where
  F: Fn() + Send + Sync + 'static,
{
  init_process();
  ctx::reset_run(cfg.rates, cfg.start_ns);
  let shared: SchedShared = Rc::new(RefCell::new(SchedStats::default()));
  let mut sched = SimScheduler::new(cfg.seed, cfg.mode, cfg.spurious_rate, cfg.record_trace, shared.clone());
  if let Some(g) = &cfg.guide {
    sched = sched.with_guide(g.clone());
  }
  let mut c = shuttle::Config::new();
  c.failure_persistence = shuttle::FailurePersistence::None;
  c.silence_warnings = true;
  c.max_steps = shuttle::MaxSteps::FailAfter(cfg.max_steps);
  c.stack_size = cfg.stack_size;
  LAST_PANIC.with(|p| *p.borrow_mut() = None);
  SCHED.with(|s| *s.borrow_mut() = Some(shared.clone()));
  IN_RUN.with(|r| r.set(true));
  let res = panic::catch_unwind(AssertUnwindSafe(|| {
    shuttle::Runner::new(sched, c).run(body);
  }));
  IN_RUN.with(|r| r.set(false));
  SCHED.with(|s| *s.borrow_mut() = None);
  let failure = match res {
    Ok(()) => None,
    Err(payload) => Some(classify(payload)),
  };
  collect_out(&shared, failure)
}

/// Run `f` on a fresh OS thread (std caches its `RandomState` keys per thread; a fresh thread per
/// run makes hash iteration orders a function of the run alone) and return its result.
pub fn on_fresh_thread<R: Send + 'static>(f: impl FnOnce() -> R + Send + 'static) -> R {
  std::thread::Builder::new()
    .stack_size(4 << 20)
    .spawn(f)
    .expect("spawn run thread")
    .join()
    .expect("run thread panicked outside a run")
}

// ------------------------------------------------------------------------------------------
// Sessions: many runs inside one `Runner::run`, so shuttle's continuation pool (the coroutine
// stacks) is reused instead of being mmap'ed per run. Semantically identical to `execute` run by
// run: the scheduler is re-seeded and all per-run state is reset before each run.

pub struct SessionHooks {
  /// prepare the next run on this thread (install its scenario in TLS) and return its knobs
  pub next: Box<dyn FnMut() -> Option<RunCfg>>,
  /// the run prepared by the last `next` ended (normally or by a failure)
  pub done: Box<dyn FnMut(RunOut)>,
}

struct SessionState {
  hooks: SessionHooks,
  in_progress: bool,
}

fn collect_out(shared: &SchedShared, failure: Option<Failure>) -> RunOut {
  let stats = shared.borrow().clone();
  let mut faults = ctx::take_faults();
  if stats.spurious_wakes > 0 {
    *faults.entry("F1_spurious_wake_of_parked_thread").or_insert(0) += stats.spurious_wakes;
  }
  RunOut {
    stats,
    faults,
    probes: ctx::take_probes(),
    vtime_ns: fibre_verif_rt::time::covered_ns(),
    no_park_violations: ctx::no_park_violations(),
    failure,
  }
}

/// A scenario caught a panic it expected (e.g. a reported dependency cycle): forget it, so a
/// later failure of the run is classified by its own message.
pub fn forget_caught_panic() {
  LAST_PANIC.with(|p| *p.borrow_mut() = None);
}

fn classify(payload: Box<dyn std::any::Any + Send>) -> Failure {
  let (mut msg, loc) = LAST_PANIC.with(|p| p.borrow_mut().take()).unwrap_or_default();
  if msg.is_empty() {
    msg = if let Some(s) = payload.downcast_ref::<&str>() {
      s.to_string()
    } else if let Some(s) = payload.downcast_ref::<String>() {
      s.clone()
    } else {
      "<panic>".into()
    };
  }
  let kind = if msg.starts_with("deadlock!") {
    FailKind::Deadlock
  } else if msg.starts_with("exceeded max_steps") {
    FailKind::StepBound
  } else {
    FailKind::Panic
  };
  Failure { kind, message: msg, location: loc }
}

pub fn execute_many(max_steps: usize, stack_size: usize, hooks: SessionHooks, body: std::sync::Arc<dyn Fn() + Send + Sync>) {
  init_process();
  let state = Rc::new(RefCell::new(SessionState { hooks, in_progress: false }));
  loop {
    let shared: SchedShared = Rc::new(RefCell::new(SchedStats::default()));
    let st2 = state.clone();
    let sh2 = shared.clone();
    let finished = Rc::new(std::cell::Cell::new(false));
    let fin2 = finished.clone();
    let next: super::sched::NextFn = Box::new(move || {
      let mut st = st2.borrow_mut();
      if st.in_progress {
        st.in_progress = false;
        let out = collect_out(&sh2, None);
        (st.hooks.done)(out);
      }
      match (st.hooks.next)() {
        None => {
          fin2.set(true);
          None
        }
        Some(cfg) => {
          st.in_progress = true;
          ctx::reset_run(cfg.rates, cfg.start_ns);
          LAST_PANIC.with(|p| *p.borrow_mut() = None);
          Some(super::sched::NextRun { seed: cfg.seed, mode: cfg.mode, spurious_rate: cfg.spurious_rate, record_trace: cfg.record_trace, guide: cfg.guide })
        }
      }
    });
    let sched = SimScheduler::session(next, shared.clone());
    let mut c = shuttle::Config::new();
    c.failure_persistence = shuttle::FailurePersistence::None;
    c.silence_warnings = true;
    c.max_steps = shuttle::MaxSteps::FailAfter(max_steps);
    c.stack_size = stack_size;
    SCHED.with(|s| *s.borrow_mut() = Some(shared.clone()));
    IN_RUN.with(|r| r.set(true));
    let b = body.clone();
    let res = panic::catch_unwind(AssertUnwindSafe(|| {
      shuttle::Runner::new(sched, c).run(move || b());
    }));
    IN_RUN.with(|r| r.set(false));
    SCHED.with(|s| *s.borrow_mut() = None);
    match res {
      Ok(()) => {
        debug_assert!(finished.get());
        break;
      }
      Err(payload) => {
        let failure = classify(payload);
        let mut st = state.borrow_mut();
        if st.in_progress {
          st.in_progress = false;
          let out = collect_out(&shared, Some(failure));
          (st.hooks.done)(out);
        } else {
          println!("HARNESS-PANIC outside a run: {} at {}", failure.message, failure.location);
          break;
        }
      }
    }
  }
}
