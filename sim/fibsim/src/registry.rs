//! Which lanes decide which property; replay; self-tests.

use crate::chan::adapt::Flavour;
use crate::chan::gen::{ConcFamily, ConcProfile};
use crate::chan::spmc::SpmcFamily;
use crate::chan::topic::TopicFamily;
use crate::lock::LockFamily;
use crate::core::batch::{Family, Violation};
use crate::core::check::{lane, CheckSpec};
use serde_json::Value;

fn conc(name: &'static str, f: impl FnOnce(&mut ConcProfile)) -> ConcFamily {
  let mut p = ConcProfile::general(name);
  f(&mut p);
  ConcFamily { profile: p }
}

const CHAN_ASSUME: &[&str] = &[
  "shuttle executes every atomic as SeqCst: a change that only weakens a memory ordering is invisible",
  "scheduling points are the facade's atomics, Mutex, park/unpark, yield and spin hints; code between two of them runs atomically",
  "bounds: <= 3 producers x <= 10 tokens, <= 3 consumers, capacities {1,2,3,4,5,8}",
];

fn spmc(faults: bool, asyncness: u8, cancel: bool, lifecycle: bool) -> SpmcFamily {
  SpmcFamily { faults, asyncness, cancel, lifecycle }
}

fn topic(faults: bool, asyncness: u8, cancel: bool, lifecycle: bool, dynamic_subs: bool) -> TopicFamily {
  TopicFamily { faults, asyncness, cancel, lifecycle, dynamic_subs }
}

pub fn check_spec(id: &str) -> Option<CheckSpec> {
  let assumptions: Vec<String> = CHAN_ASSUME.iter().map(|s| s.to_string()).collect();
  let spec = match id {
    "C01" => CheckSpec {
      property: id.into(),
      level: "exploration",
      lanes: vec![
        lane("conc/all-flavours/faults", conc("all", |_| {}), 300_000, 9_000_000),
        lane("conc/all-flavours/no-faults", conc("nofault", |p| p.faults = false), 150_000, 4_500_000),
        lane("conc/sync-only", conc("sync", |p| { p.asyncness = 0; p.cancel = false; }), 150_000, 4_500_000),
      ],
      assumptions,
      notes: vec![],
    },
    "C02" => CheckSpec {
      property: id.into(),
      level: "exploration",
      lanes: vec![
        lane("conc/order/faults", conc("order", |p| { p.lifecycle = false; p.max_tokens_per_producer = 12; }), 300_000, 9_000_000),
        lane("conc/order/no-faults", conc("order-nf", |p| { p.lifecycle = false; p.faults = false; p.max_tokens_per_producer = 12; }), 150_000, 4_500_000),
      ],
      assumptions,
      notes: vec![],
    },
    "C03" => CheckSpec {
      property: id.into(),
      level: "exploration",
      lanes: vec![
        lane("conc/bounded", conc("bounded", |p| { p.flavours = vec![Flavour::SpscBounded, Flavour::MpscBounded, Flavour::MpmcBounded, Flavour::SpscRendezvous, Flavour::MpscRendezvous, Flavour::MpmcRendezvous]; }), 300_000, 9_000_000),
        lane("conc/bounded/no-faults", conc("bounded-nf", |p| { p.faults = false; p.flavours = vec![Flavour::SpscBounded, Flavour::MpscBounded, Flavour::MpmcBounded, Flavour::SpscRendezvous, Flavour::MpscRendezvous, Flavour::MpmcRendezvous]; }), 150_000, 4_500_000),
      ],
      assumptions,
      notes: vec![],
    },
    "C04" => CheckSpec {
      property: id.into(),
      level: "exploration",
      lanes: vec![
        lane("conc/lifecycle", conc("lifecycle", |p| { p.hold_open_pct = 10; }), 300_000, 9_000_000),
        lane("conc/lifecycle/no-faults", conc("lifecycle-nf", |p| { p.hold_open_pct = 10; p.faults = false; }), 150_000, 4_500_000),
        lane("spmc/lifecycle", spmc(true, 2, true, true), 100_000, 3_000_000),
        lane("topic/lifecycle", topic(true, 2, true, true, true), 30_000, 1_000_000),
      ],
      assumptions,
      notes: vec![],
    },
    "C05" => CheckSpec {
      property: id.into(),
      level: "exploration",
      lanes: vec![
        lane("conc/sync/liveness", conc("sync-live", |p| { p.asyncness = 0; p.cancel = false; p.hold_open_pct = 60; }), 400_000, 12_000_000),
        lane("conc/sync/liveness/no-faults", conc("sync-live-nf", |p| { p.asyncness = 0; p.cancel = false; p.hold_open_pct = 60; p.faults = false; }), 200_000, 6_000_000),
        lane("spmc/sync/liveness", spmc(true, 0, false, true), 150_000, 4_500_000),
        lane("topic/sync/liveness", topic(true, 0, false, true, true), 100_000, 3_000_000),
      ],
      assumptions,
      notes: vec![],
    },
    "C06" => CheckSpec {
      property: id.into(),
      level: "exploration",
      lanes: vec![
        lane("conc/async/liveness", conc("async-live", |p| { p.asyncness = 1; p.timed = false; p.hold_open_pct = 60; }), 300_000, 9_000_000),
        lane("conc/mixed/liveness", conc("mixed-live", |p| { p.asyncness = 2; p.hold_open_pct = 60; }), 300_000, 9_000_000),
        lane("spmc/async/liveness", spmc(true, 1, true, true), 100_000, 3_000_000),
        lane("spmc/mixed/liveness", spmc(true, 2, true, true), 100_000, 3_000_000),
        lane("topic/mixed/liveness", topic(true, 2, true, true, true), 30_000, 1_000_000),
      ],
      assumptions,
      notes: vec![],
    },
    "C09" => CheckSpec {
      property: id.into(),
      level: "exploration",
      lanes: vec![
        lane("conc/teardown", conc("teardown", |_| {}), 300_000, 9_000_000),
        lane("spmc/teardown", spmc(true, 2, true, true), 100_000, 3_000_000),
        lane("topic/teardown", topic(true, 2, true, true, true), 30_000, 1_000_000),
      ],
      assumptions,
      notes: vec![],
    },
    "C07" => CheckSpec {
      property: id.into(),
      level: "exploration",
      lanes: vec![
        lane("spmc/mixed/faults", spmc(true, 2, true, true), 300_000, 9_000_000),
        lane("spmc/mixed/no-faults", spmc(false, 2, true, true), 150_000, 4_500_000),
        lane("spmc/sync", spmc(true, 0, false, true), 150_000, 4_500_000),
        lane("spmc/no-cancel/no-lifecycle", spmc(true, 2, false, false), 150_000, 4_500_000),
      ],
      assumptions,
      notes: vec!["usage restriction: one thread drives a given receiver handle at a time".into()],
    },
    "C08" => CheckSpec {
      property: id.into(),
      level: "exploration",
      lanes: vec![
        lane("topic/mixed/faults", topic(true, 2, true, true, true), 300_000, 9_000_000),
        lane("topic/mixed/no-faults", topic(false, 2, true, true, true), 150_000, 4_500_000),
        lane("topic/sync/static-subs", topic(true, 0, false, false, false), 150_000, 4_500_000),
        lane("topic/async/no-cancel", topic(true, 1, false, true, true), 150_000, 4_500_000),
      ],
      assumptions,
      notes: vec!["papaya::HashMap runs uninstrumented (atomically between scheduling points)".into()],
    },
    "C10" => CheckSpec {
      property: id.into(),
      level: "exploration",
      lanes: vec![
        lane("lock/faults", LockFamily { faults: true, cancel: true, starve: false }, 300_000, 9_000_000),
        lane("lock/no-faults", LockFamily { faults: false, cancel: true, starve: false }, 150_000, 4_500_000),
        lane("lock/no-cancel", LockFamily { faults: true, cancel: false, starve: false }, 150_000, 4_500_000),
        lane("lock/writer-starvation", LockFamily { faults: false, cancel: false, starve: true }, 300, 5_000),
      ],
      assumptions: vec![
        "shuttle executes every atomic as SeqCst: a change that only weakens a memory ordering is invisible".into(),
        "bounds: 2-4 threads x <=5 acquisitions, 0-3 yields per critical section".into(),
        "writer non-starvation is decided under a targeted adversarial scheduler mode (readers have absolute priority once the writer has queued); the bound is 100 read sections per reader thread".into(),
      ],
      notes: vec![],
    },
    _ => return None,
  };
  Some(spec)
}

fn run_family_replay<F: Family>(fam: F, v: &Value) -> Result<(Vec<Violation>, u64, Vec<u16>), String> {
  let sc: F::Sc = serde_json::from_value(v["scenario"].clone()).map_err(|e| format!("cannot parse scenario: {e}"))?;
  let ev = crate::core::run::on_fresh_thread(move || fam.run(&sc, true));
  Ok((ev.violations, ev.out.stats.trace_hash, ev.out.stats.trace))
}

pub fn replay(path: &str) -> i32 {
  let s = match std::fs::read_to_string(path) {
    Ok(s) => s,
    Err(e) => {
      println!("HARNESS-ERROR: cannot read {path}: {e}");
      return 2;
    }
  };
  let v: Value = match serde_json::from_str(&s) {
    Ok(v) => v,
    Err(e) => {
      println!("HARNESS-ERROR: cannot parse {path}: {e}");
      return 2;
    }
  };
  let fam = v["family"].as_str().unwrap_or("");
  let res = match fam {
    "CH-CONC" => run_family_replay(conc("replay", |_| {}), &v),
    "CH-SPMC" => run_family_replay(spmc(true, 2, true, true), &v),
    "CH-TOPIC" => run_family_replay(topic(true, 2, true, true, true), &v),
    "LOCK" => run_family_replay(LockFamily { faults: true, cancel: true, starve: false }, &v),
    _ => Err(format!("unknown family {fam}")),
  };
  match res {
    Err(e) => {
      println!("HARNESS-ERROR: {e}");
      2
    }
    Ok((viols, hash, _trace)) => {
      let want_p = v["violation"]["property"].as_str().unwrap_or("");
      let want_c = v["violation"]["class"].as_str().unwrap_or("");
      let want_hash = v["trace_hash"].as_str().unwrap_or("");
      let got_hash = format!("{hash:016x}");
      let hit = viols.iter().find(|x| x.property == want_p && x.class == want_c);
      println!("replay {path}: trace_hash recorded={want_hash} replayed={got_hash} ({})", if want_hash == got_hash { "identical" } else { "DIFFERENT" });
      match hit {
        Some(x) => {
          println!("VIOLATION property={} replay={}", x.property, path);
          println!("  class={} detail: {}", x.class, x.detail);
          if want_hash != got_hash {
            println!("HARNESS-ERROR: violation reproduced but the decision trace differs");
            return 2;
          }
          1
        }
        None => {
          println!("NOT-REPRODUCED: expected {want_p}/{want_c}, got {:?}", viols.iter().map(|x| format!("{}/{}", x.property, x.class)).collect::<Vec<_>>());
          0
        }
      }
    }
  }
}

pub fn selftest(_args: &[String]) -> i32 {
  println!("selftest: not yet implemented");
  2
}
