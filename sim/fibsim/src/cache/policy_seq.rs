//! Direct, single-threaded seeded driver of each built-in policy (C14's call-sequence part).
