pub mod iter {
  pub struct Seq<I>(pub I);

  pub trait IntoParallelIterator {
    type Item;
    type Iter: ParallelIterator<Item = Self::Item>;
    fn into_par_iter(self) -> Self::Iter;
  }

  impl<T: IntoIterator> IntoParallelIterator for T {
    type Item = T::Item;
    type Iter = Seq<T::IntoIter>;
    fn into_par_iter(self) -> Self::Iter {
      Seq(self.into_iter())
    }
  }

  pub trait ParallelIterator: Sized {
    type Item;
    type Inner: Iterator<Item = Self::Item>;
    fn into_seq(self) -> Self::Inner;

    fn for_each<F: FnMut(Self::Item)>(self, f: F) {
      self.into_seq().for_each(f)
    }
    fn map<R, F: FnMut(Self::Item) -> R>(self, f: F) -> Seq<std::iter::Map<Self::Inner, F>> {
      Seq(self.into_seq().map(f))
    }
    fn filter_map<R, F: FnMut(Self::Item) -> Option<R>>(self, f: F) -> Seq<std::iter::FilterMap<Self::Inner, F>> {
      Seq(self.into_seq().filter_map(f))
    }
    fn fold<A, ID: Fn() -> A, F: FnMut(A, Self::Item) -> A>(self, identity: ID, f: F) -> Seq<std::iter::Once<A>> {
      Seq(std::iter::once(self.into_seq().fold(identity(), f)))
    }
    fn reduce<ID: Fn() -> Self::Item, F: FnMut(Self::Item, Self::Item) -> Self::Item>(self, identity: ID, f: F) -> Self::Item {
      self.into_seq().fold(identity(), f)
    }
    fn collect<C: FromIterator<Self::Item>>(self) -> C {
      self.into_seq().collect()
    }
    fn sum<S: std::iter::Sum<Self::Item>>(self) -> S {
      self.into_seq().sum()
    }
  }

  pub trait IndexedParallelIterator: ParallelIterator {
    fn enumerate(self) -> Seq<std::iter::Enumerate<Self::Inner>> {
      Seq(self.into_seq().enumerate())
    }
    fn zip<Z: IntoParallelIterator>(self, other: Z) -> Seq<std::iter::Zip<Self::Inner, <Z::Iter as ParallelIterator>::Inner>> {
      Seq(self.into_seq().zip(other.into_par_iter().into_seq()))
    }
  }

  impl<I: Iterator> ParallelIterator for Seq<I> {
    type Item = I::Item;
    type Inner = I;
    fn into_seq(self) -> I {
      self.0
    }
  }

  impl<I: Iterator> IndexedParallelIterator for Seq<I> {}
}

pub mod prelude {
  pub use super::iter::{IndexedParallelIterator, IntoParallelIterator, ParallelIterator};
}
