use std::hash::{BuildHasher, Hasher};

#[derive(Clone, Debug)]
pub struct RandomState {
  k: u64,
}

impl RandomState {
  pub fn new() -> Self {
    RandomState { k: 0x5EED_0000 + fibre_verif_rt::ctx::next_nonce() }
  }
  pub fn with_seed(seed: usize) -> Self {
    RandomState { k: seed as u64 }
  }
  pub fn with_seeds(a: u64, b: u64, c: u64, d: u64) -> Self {
    RandomState { k: a ^ b.rotate_left(16) ^ c.rotate_left(32) ^ d.rotate_left(48) }
  }
  pub fn hash_one<T: std::hash::Hash>(&self, x: T) -> u64 {
    let mut h = self.build_hasher();
    x.hash(&mut h);
    h.finish()
  }
}

impl Default for RandomState {
  fn default() -> Self {
    Self::new()
  }
}

impl BuildHasher for RandomState {
  type Hasher = std::collections::hash_map::DefaultHasher;
  fn build_hasher(&self) -> Self::Hasher {
    let mut h = std::collections::hash_map::DefaultHasher::new();
    h.write_u64(self.k);
    h
  }
}

pub type HashMap<K, V> = std::collections::HashMap<K, V, RandomState>;
pub type HashSet<K> = std::collections::HashSet<K, RandomState>;
pub type AHashMap<K, V> = HashMap<K, V>;
pub type AHashSet<K> = HashSet<K>;

pub trait HashMapExt {
  fn new() -> Self;
  fn with_capacity(n: usize) -> Self;
}

impl<K, V> HashMapExt for HashMap<K, V> {
  fn new() -> Self {
    std::collections::HashMap::with_hasher(RandomState::new())
  }
  fn with_capacity(n: usize) -> Self {
    std::collections::HashMap::with_capacity_and_hasher(n, RandomState::new())
  }
}

pub trait HashSetExt {
  fn new() -> Self;
  fn with_capacity(n: usize) -> Self;
}

impl<K> HashSetExt for HashSet<K> {
  fn new() -> Self {
    std::collections::HashSet::with_hasher(RandomState::new())
  }
  fn with_capacity(n: usize) -> Self {
    std::collections::HashSet::with_capacity_and_hasher(n, RandomState::new())
  }
}
