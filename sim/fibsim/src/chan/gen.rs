//! Scenario generator, shrinker and `Family` implementation for CH-CONC.

use super::adapt::{Flavour, RRes, SRes};
use super::conc::*;
use super::drive::Plan;
use super::oracle;
use crate::core::batch::{Evaluated, Family};
use crate::core::rng::Rng;
use serde_json::{json, Value};

/// What a lane emphasises (swarm style: each lane restricts / biases the generator).
#[derive(Clone, Debug)]
pub struct ConcProfile {
  pub name: &'static str,
  pub flavours: Vec<Flavour>,
  /// 0 = sync only, 1 = async only, 2 = mixed (conversions, either constructor)
  pub asyncness: u8,
  pub faults: bool,
  /// allow cancellation plans on async operations
  pub cancel: bool,
  /// allow timed receives
  pub timed: bool,
  /// allow consumer quotas / early close / closed-handle use
  pub lifecycle: bool,
  /// probability (percent) of the hold-open liveness variant
  pub hold_open_pct: u64,
  pub max_tokens_per_producer: u64,
  /// capacities to draw from
  pub caps: Vec<usize>,
  /// only the blocking single-item forms (`send` / `recv`), no chaos ops in between: the plain
  /// park / wake handshake, repeated on a channel that is full or empty most of the time
  pub blocking_only: bool,
  /// numerator (over 6) of the chance that a producer's "life-cycle slot" closes its own handle
  pub close_own_in: u64,
  /// one operation in this many gets an extra, unprompted poll while it is pending (F7)
  pub spurious_poll_in: u64,
  /// consumers go idle in between (COp::Pause)
  pub idle_consumer: bool,
}

impl ConcProfile {
  pub fn general(name: &'static str) -> Self {
    ConcProfile {
      name,
      flavours: Flavour::ALL.to_vec(),
      asyncness: 2,
      faults: true,
      cancel: true,
      timed: true,
      lifecycle: true,
      hold_open_pct: 30,
      max_tokens_per_producer: 10,
      caps: vec![1, 1, 2, 2, 3, 4, 5, 8],
      blocking_only: false,
      close_own_in: 1,
      spurious_poll_in: 8,
      idle_consumer: false,
    }
  }
}

pub struct ConcFamily {
  pub profile: ConcProfile,
}

fn gen_plan(rng: &mut Rng, allow_cancel: bool, spurious_in: u64) -> Plan {
  let mut p = Plan::NONE;
  if allow_cancel && rng.chance(1, 5) {
    p.cancel_after = rng.range(1, 2) as u8;
    p.linger = rng.below(3) as u8;
  }
  if rng.chance(1, 6) {
    p.swap_waker = true;
  }
  if rng.chance(1, spurious_in) {
    p.spurious_poll = true;
  }
  p
}

impl ConcFamily {
  fn gen_producer(&self, rng: &mut Rng, fl: Flavour, quota: u64) -> Producer {
    let p = &self.profile;
    let mut ops = vec![];
    let mut left = if fl == Flavour::Oneshot { 1 } else { quota };
    while left > 0 {
      if p.blocking_only {
        left -= 1;
        ops.push(POp::Send { form: SendForm::Single, n: 1, plan: Plan::NONE });
        continue;
      }
      // life-cycle / chaos ops in between
      match rng.below(20) {
        0 if p.asyncness == 2 && fl.has_conversions() => ops.push(POp::Convert),
        1 if fl.multi_producer() => ops.push(POp::CloneSwap),
        2 if fl.multi_producer() => ops.push(POp::CloneDrop),
        3 => ops.push(POp::Observe),
        4 => ops.push(POp::Yield),
        5 if p.lifecycle && rng.chance(p.close_own_in, 6) => {
          ops.push(POp::CloseOwn);
          // ... and keep going on a conversion or a clone of the closed handle: whatever that is,
          // it must not bring a channel back that receivers already saw Disconnected
          match rng.below(4) {
            0 if p.asyncness == 2 && fl.has_conversions() => ops.push(POp::Convert),
            1 if fl.multi_producer() => ops.push(POp::CloneSwap),
            _ => {}
          }
        }
        _ => {}
      }
      let form = if fl.has_batch() {
        *rng.pick(&[SendForm::Single, SendForm::Single, SendForm::Try, SendForm::Batch, SendForm::TryBatch, SendForm::BatchMut, SendForm::TryBatchMut])
      } else {
        *rng.pick(&[SendForm::Single, SendForm::Single, SendForm::Single, SendForm::Try])
      };
      let n = match form {
        SendForm::Single | SendForm::Try => 1,
        _ => rng.range(1, left.min(5)),
      };
      left -= n;
      ops.push(POp::Send { form, n: n as u8, plan: gen_plan(rng, p.cancel, p.spurious_poll_in) });
    }
    Producer { ops }
  }

  fn gen_consumer(&self, rng: &mut Rng, fl: Flavour, allow_quota: bool, total: u64) -> Consumer {
    let p = &self.profile;
    let mut ops = vec![];
    let k = if p.blocking_only { 0 } else { rng.range(1, 4) };
    for _ in 0..k {
      match rng.below(16) {
        0 if p.asyncness == 2 && fl.has_conversions() => ops.push(COp::Convert),
        1 if fl.multi_consumer() => ops.push(COp::CloneSwap),
        2 if fl.multi_consumer() => ops.push(COp::CloneDrop),
        3 => ops.push(COp::Observe),
        4 => ops.push(COp::Yield),
        5 | 6 | 7 if p.idle_consumer => ops.push(COp::Pause { rounds: 400, eager: rng.chance(1, 4) }),
        _ => {}
      }
      let mut forms = vec![RecvForm::Single, RecvForm::Single, RecvForm::Try];
      if p.timed && fl.has_timed_recv() {
        forms.push(RecvForm::Timeout);
        forms.push(RecvForm::Timeout);
      }
      if fl.has_batch() {
        forms.extend_from_slice(&[RecvForm::Batch, RecvForm::TryBatch, RecvForm::BatchMut, RecvForm::TryBatchMut]);
      }
      if fl.has_stream() && p.asyncness > 0 {
        forms.push(RecvForm::Stream);
      }
      let form = *rng.pick(&forms);
      ops.push(COp::Recv { form, max: rng.range(1, 4) as u8, timeout_ns: *rng.pick(&[1u64, 1_000, 1_000_000, 50_000_000]), plan: gen_plan(rng, p.cancel, p.spurious_poll_in) });
    }
    // the cycle always ends with a plain blocking receive, so a consumer never just spins
    let last_form = if !p.blocking_only && fl.has_batch() && rng.chance(1, 3) { RecvForm::Batch } else { RecvForm::Single };
    ops.push(COp::Recv { form: last_form, max: rng.range(1, 3) as u8, timeout_ns: 0, plan: Plan { swap_waker: rng.chance(1, 6), ..Plan::NONE } });
    let quota = if allow_quota && p.lifecycle && rng.chance(1, 4) { Some(rng.range(1, total.max(1)) as u16) } else { None };
    let at_end = if p.lifecycle {
      match rng.below(10) {
        0..=3 => AtEnd::Drop,
        4 | 5 => AtEnd::Close,
        6 | 7 => AtEnd::CloseThenUse,
        8 if p.asyncness == 2 && fl.has_conversions() => AtEnd::CloseThenConvertUse,
        9 if fl.multi_consumer() => AtEnd::CloseThenCloneUse,
        _ => AtEnd::CloseThenUse,
      }
    } else {
      AtEnd::Drop
    };
    Consumer { ops, quota, at_end }
  }
}

impl Family for ConcFamily {
  type Sc = ChanSc;

  fn name(&self) -> &'static str {
    "CH-CONC"
  }

  fn rule(&self) -> &'static str {
    "one case = one generated program (flavour, capacity, 1-3 producers x <=10 tokens with mixed send forms, 1-3 consumers cycling mixed receive forms, clone/convert/close/drop chaos, cancellation plans) under one seeded schedule and fault plan; non-trivial = at least 3 context switches and at least one token delivered; distinct = distinct scheduler decision-trace hash"
  }

  fn generate(&self, rng: &mut Rng) -> ChanSc {
    let p = &self.profile;
    let flavours: Vec<Flavour> = p.flavours.iter().copied().filter(|f| p.asyncness != 0 || *f != Flavour::Oneshot).collect();
    let fl = *rng.pick(&flavours);
    let cap = *rng.pick(&p.caps);
    let async_ctor = match p.asyncness {
      0 => false,
      1 => true,
      _ => rng.chance(1, 2),
    };
    let nprod = if fl.multi_producer() { rng.range(1, 3) } else { 1 };
    let ncons = if fl.multi_consumer() { rng.range(1, 3) } else { 1 };
    let mut producers = vec![];
    let mut total = 0;
    for _ in 0..nprod {
      let q = rng.range(1, p.max_tokens_per_producer);
      total += q;
      producers.push(self.gen_producer(rng, fl, q));
    }
    let hold_open = fl.multi_producer() && rng.below(100) < p.hold_open_pct;
    let mut consumers = vec![];
    for i in 0..ncons {
      // a quota is only safe when somebody else keeps draining (or nobody must wait for us)
      let allow_quota = !hold_open && (ncons > 1 && i > 0 || ncons == 1);
      consumers.push(self.gen_consumer(rng, fl, allow_quota, total));
    }
    let mut sc = ChanSc { flavour: fl, cap, async_ctor, producers, consumers, hold_open, knobs: Knobs::gen(rng, p.faults, 40 * (total as u32 + 4)) };
    sanitize(&mut sc);
    sc
  }

  fn needs_fresh_thread(&self) -> bool {
    // the point-to-point channels iterate no hash maps
    false
  }

  fn max_steps(&self) -> usize {
    60_000
  }

  fn begin(&self, sc: &ChanSc, record_trace: bool) -> crate::core::run::RunCfg {
    begin_scenario(sc, record_trace)
  }

  fn body(&self) -> std::sync::Arc<dyn Fn() + Send + Sync> {
    std::sync::Arc::new(scenario_main)
  }

  fn finish(&self, sc: &ChanSc, out: crate::core::run::RunOut) -> Evaluated {
    let mut run = finish_scenario(out);
    reach(&mut run);
    if std::env::var("VERIF_DUMP").is_ok() {
      for e in &run.events {
        println!("  ev actor={} handle={} inv={} ret={} {:?}", e.actor, e.handle, e.inv, e.ret, e.k);
      }
      println!("  failure={:?}", run.out.failure);
    }
    let violations = oracle::evaluate(sc, &run);
    let states = oracle::states(sc, &run);
    let delivered = run.events.iter().any(|e| matches!(&e.k, EvK::Recv { out, .. } if !out.got.is_empty()));
    let nontrivial = run.out.stats.switches >= 3 && delivered;
    Evaluated { out: run.out, violations, states, nontrivial }
  }

  fn shrink(&self, sc: &ChanSc) -> Vec<ChanSc> {
    let mut out = vec![];
    // drop a producer / consumer
    if sc.producers.len() > 1 {
      for i in 0..sc.producers.len() {
        let mut c = sc.clone();
        c.producers.remove(i);
        out.push(c);
      }
    }
    if sc.consumers.len() > 1 {
      for i in 0..sc.consumers.len() {
        let mut c = sc.clone();
        c.consumers.remove(i);
        out.push(c);
      }
    }
    // drop an op
    for (pi, p) in sc.producers.iter().enumerate() {
      if p.ops.len() > 1 {
        for oi in 0..p.ops.len() {
          let mut c = sc.clone();
          c.producers[pi].ops.remove(oi);
          out.push(c);
        }
      }
    }
    for (ci, p) in sc.consumers.iter().enumerate() {
      if p.ops.len() > 1 {
        for oi in 0..p.ops.len() - 1 {
          let mut c = sc.clone();
          c.consumers[ci].ops.remove(oi);
          out.push(c);
        }
      }
    }
    // simplify ops
    for (pi, p) in sc.producers.iter().enumerate() {
      for (oi, op) in p.ops.iter().enumerate() {
        if let POp::Send { form, n, plan } = op {
          if *n > 1 {
            let mut c = sc.clone();
            c.producers[pi].ops[oi] = POp::Send { form: *form, n: n - 1, plan: *plan };
            out.push(c);
          }
          if *plan != Plan::NONE {
            let mut c = sc.clone();
            c.producers[pi].ops[oi] = POp::Send { form: *form, n: *n, plan: Plan::NONE };
            out.push(c);
          }
          if *form != SendForm::Single && *n == 1 {
            let mut c = sc.clone();
            c.producers[pi].ops[oi] = POp::Send { form: SendForm::Single, n: 1, plan: *plan };
            out.push(c);
          }
        }
      }
    }
    for (ci, p) in sc.consumers.iter().enumerate() {
      for (oi, op) in p.ops.iter().enumerate() {
        if let COp::Recv { form, max, timeout_ns, plan } = op {
          if *plan != Plan::NONE {
            let mut c = sc.clone();
            c.consumers[ci].ops[oi] = COp::Recv { form: *form, max: *max, timeout_ns: *timeout_ns, plan: Plan::NONE };
            out.push(c);
          }
          if *form != RecvForm::Single {
            let mut c = sc.clone();
            c.consumers[ci].ops[oi] = COp::Recv { form: RecvForm::Single, max: 1, timeout_ns: 0, plan: *plan };
            out.push(c);
          }
          if *max > 1 {
            let mut c = sc.clone();
            c.consumers[ci].ops[oi] = COp::Recv { form: *form, max: 1, timeout_ns: *timeout_ns, plan: *plan };
            out.push(c);
          }
        }
      }
      if p.quota.is_some() {
        let mut c = sc.clone();
        c.consumers[ci].quota = None;
        out.push(c);
      }
      if p.at_end != AtEnd::Drop {
        let mut c = sc.clone();
        c.consumers[ci].at_end = AtEnd::Drop;
        out.push(c);
      }
    }
    if sc.hold_open {
      let mut c = sc.clone();
      c.hold_open = false;
      out.push(c);
    }
    if sc.cap > 1 {
      let mut c = sc.clone();
      c.cap = 1;
      out.push(c);
    }
    // fewer faults
    if sc.knobs.spurious_rate > 0 || sc.knobs.cas_weak > 0 || sc.knobs.park_return > 0 {
      let mut c = sc.clone();
      c.knobs.spurious_rate = 0;
      c.knobs.cas_weak = 0;
      c.knobs.park_return = 0;
      out.push(c);
    }
    if sc.knobs.mode != ModeSer::Uniform {
      let mut c = sc.clone();
      c.knobs.mode = ModeSer::Uniform;
      out.push(c);
    }
    out.retain(|c| valid(c));
    for c in out.iter_mut() {
      sanitize(c);
    }
    out
  }

  fn reseed(&self, sc: &ChanSc, seed: u64) -> ChanSc {
    let mut c = sc.clone();
    c.knobs.seed = seed;
    c
  }

  fn components(&self) -> Value {
    json!({
      "real": ["fibre channels (spsc/mpsc/mpmc bounded, unbounded, rendezvous; sync + async handles, futures, streams) compiled from /repo/channels/src",
               "internal::{slab_chain (4-node slabs), rendezvous, unsynchronized_ring}, sync_util, async_util"],
      "stub": ["std/parking_lot atomics, Mutex, thread park/unpark, spin hints -> shuttle-backed facade (fibre_verif_rt)",
               "Instant::now / park_timeout -> virtual clock",
               "executor -> shuttle block_on (polls a task only after its waker fired)"],
      "unmodelled": ["weak memory orderings (shuttle executes atomics as SeqCst)", "futures_util AtomicWaker internals run atomically"]
    })
  }
}

/// Keep a scenario inside the family's rules (used after generation and after each shrink step).
pub fn sanitize(sc: &mut ChanSc) {
  for p in sc.producers.iter_mut() {
    for op in p.ops.iter_mut() {
      if let POp::Send { form, n, .. } = op {
        if matches!(form, SendForm::Single | SendForm::Try) {
          *n = 1;
        }
        if *n == 0 {
          *n = 1;
        }
      }
    }
  }
  if !sc.flavour.multi_producer() {
    sc.hold_open = false;
  }
}

pub fn valid(sc: &ChanSc) -> bool {
  if sc.producers.is_empty() || sc.consumers.is_empty() {
    return false;
  }
  // every consumer cycle must end with a blocking, uncancelled receive
  for c in &sc.consumers {
    match c.ops.last() {
      Some(COp::Recv { form: RecvForm::Single | RecvForm::Batch, plan, .. }) if plan.cancel_after == 0 => {}
      _ => return false,
    }
  }
  // a quota-limited consumer that keeps nobody draining would block producers legitimately
  let unlimited = sc.consumers.iter().filter(|c| c.quota.is_none()).count();
  if sc.hold_open && unlimited != sc.consumers.len() {
    return false;
  }
  if sc.consumers.len() > 1 && unlimited == 0 {
    return false;
  }
  if sc.producers.iter().all(|p| !p.ops.iter().any(|o| matches!(o, POp::Send { .. }))) {
    return false;
  }
  true
}

/// History-derived reach counters (reported under `probes` in the evidence): which of the rare
/// outcomes the property statements talk about actually occurred.
fn reach(run: &mut ChanRun) {
  let mut hit = |name: &'static str| *run.out.probes.entry(name).or_insert(0) += 1;
  for e in &run.events {
    let spanned = e.ret > e.inv + 1;
    match &e.k {
      EvK::Send { form, input, out, .. } => {
        match out.res {
          SRes::Closed if !out.back.is_empty() => hit("reach_send_closed_value_handed_back"),
          SRes::Full => hit("reach_try_send_full"),
          SRes::Cancelled if !out.unknown.is_empty() => hit("reach_send_future_cancelled_fate_unknown"),
          SRes::Cancelled => hit("reach_send_future_cancelled"),
          _ => {}
        }
        if out.sent > 0 && out.sent < input.len() {
          hit("reach_batch_send_partial");
        }
        if spanned && matches!(form, SendForm::Single | SendForm::Batch | SendForm::BatchMut) && out.sent > 0 {
          hit("reach_blocking_send_overlapped_other_operations");
        }
      }
      EvK::Recv { form, out, max, .. } => {
        match out.res {
          RRes::Disconnected => hit("reach_recv_disconnected"),
          RRes::Timeout => hit("reach_recv_timeout_elapsed"),
          RRes::Empty => hit("reach_try_recv_empty"),
          RRes::Cancelled => hit("reach_recv_future_cancelled"),
          _ => {}
        }
        if !out.got.is_empty() && out.got.len() < *max && matches!(form, RecvForm::Batch | RecvForm::BatchMut | RecvForm::TryBatch | RecvForm::TryBatchMut) {
          hit("reach_batch_recv_partial");
        }
        if spanned && !out.got.is_empty() && matches!(form, RecvForm::Single | RecvForm::Batch | RecvForm::BatchMut) {
          hit("reach_blocking_recv_overlapped_other_operations");
        }
      }
      EvK::TxClose { .. } | EvK::RxClose { .. } => hit("reach_explicit_close"),
      EvK::ConsumerBail => hit("reach_consumer_left_with_values_buffered"),
      _ => {}
    }
  }
}
