// (copied from dashmap 5.5.3 src/lock.rs; the changes are this import block - atomics from the
// simulation runtime, parking_lot_core replaced by `crate::plc` - and the lazily built INIT)
use crate::plc as parking_lot_core;
use crate::plc::{ParkToken, SpinWait, UnparkToken};
use fibre_verif_rt::chan::{AtomicUsize, Ordering};

pub type RwLock<T> = lock_api::RwLock<RawRwLock, T>;
pub type RwLockReadGuard<'a, T> = lock_api::RwLockReadGuard<'a, RawRwLock, T>;
pub type RwLockWriteGuard<'a, T> = lock_api::RwLockWriteGuard<'a, RawRwLock, T>;

const READERS_PARKED: usize = 0b0001;
const WRITERS_PARKED: usize = 0b0010;
const ONE_READER: usize = 0b0100;
const ONE_WRITER: usize = !(READERS_PARKED | WRITERS_PARKED);

pub struct RawRwLock {
    state: LazyState,
}

/// The simulated atomic cannot be built in a `const`; it is created at first use. (One OS thread
/// runs the whole simulated world, so the plain `OnceCell` is not raced.)
pub struct LazyState(std::cell::OnceCell<AtomicUsize>);
unsafe impl Sync for LazyState {}
unsafe impl Send for LazyState {}
impl core::ops::Deref for LazyState {
    type Target = AtomicUsize;
    fn deref(&self) -> &AtomicUsize {
        self.0.get_or_init(|| AtomicUsize::new(0))
    }
}

unsafe impl lock_api::RawRwLock for RawRwLock {
    #[allow(clippy::declare_interior_mutable_const)]
    const INIT: Self = Self {
        state: LazyState(std::cell::OnceCell::new()),
    };

    type GuardMarker = lock_api::GuardNoSend;

    #[inline]
    fn try_lock_exclusive(&self) -> bool {
        self.state
            .compare_exchange(0, ONE_WRITER, Ordering::Acquire, Ordering::Relaxed)
            .is_ok()
    }

    #[inline]
    fn lock_exclusive(&self) {
        if self
            .state
            .compare_exchange_weak(0, ONE_WRITER, Ordering::Acquire, Ordering::Relaxed)
            .is_err()
        {
            self.lock_exclusive_slow();
        }
    }

    #[inline]
    unsafe fn unlock_exclusive(&self) {
        if self
            .state
            .compare_exchange(ONE_WRITER, 0, Ordering::Release, Ordering::Relaxed)
            .is_err()
        {
            self.unlock_exclusive_slow();
        }
    }

    #[inline]
    fn try_lock_shared(&self) -> bool {
        self.try_lock_shared_fast() || self.try_lock_shared_slow()
    }

    #[inline]
    fn lock_shared(&self) {
        if !self.try_lock_shared_fast() {
            self.lock_shared_slow();
        }
    }

    #[inline]
    unsafe fn unlock_shared(&self) {
        let state = self.state.fetch_sub(ONE_READER, Ordering::Release);

        if state == (ONE_READER | WRITERS_PARKED) {
            self.unlock_shared_slow();
        }
    }
}

unsafe impl lock_api::RawRwLockDowngrade for RawRwLock {
    #[inline]
    unsafe fn downgrade(&self) {
        let state = self
            .state
            .fetch_and(ONE_READER | WRITERS_PARKED, Ordering::Release);
        if state & READERS_PARKED != 0 {
            parking_lot_core::unpark_all((self as *const _ as usize) + 1, UnparkToken(0));
        }
    }
}

impl RawRwLock {
    #[cold]
    fn lock_exclusive_slow(&self) {
        let mut acquire_with = 0;
        loop {
            let mut spin = SpinWait::new();
            let mut state = self.state.load(Ordering::Relaxed);

            loop {
                while state & ONE_WRITER == 0 {
                    match self.state.compare_exchange_weak(
                        state,
                        state | ONE_WRITER | acquire_with,
                        Ordering::Acquire,
                        Ordering::Relaxed,
                    ) {
                        Ok(_) => return,
                        Err(e) => state = e,
                    }
                }

                if state & WRITERS_PARKED == 0 {
                    if spin.spin() {
                        state = self.state.load(Ordering::Relaxed);
                        continue;
                    }

                    if let Err(e) = self.state.compare_exchange_weak(
                        state,
                        state | WRITERS_PARKED,
                        Ordering::Relaxed,
                        Ordering::Relaxed,
                    ) {
                        state = e;
                        continue;
                    }
                }

                let _ = unsafe {
                    parking_lot_core::park(
                        self as *const _ as usize,
                        || {
                            let state = self.state.load(Ordering::Relaxed);
                            (state & ONE_WRITER != 0) && (state & WRITERS_PARKED != 0)
                        },
                        || {},
                        |_, _| {},
                        ParkToken(0),
                        None,
                    )
                };

                acquire_with = WRITERS_PARKED;
                break;
            }
        }
    }

    #[cold]
    fn unlock_exclusive_slow(&self) {
        let state = self.state.load(Ordering::Relaxed);
        assert_eq!(state & ONE_WRITER, ONE_WRITER);

        let mut parked = state & (READERS_PARKED | WRITERS_PARKED);
        assert_ne!(parked, 0);

        if parked != (READERS_PARKED | WRITERS_PARKED) {
            if let Err(new_state) =
                self.state
                    .compare_exchange(state, 0, Ordering::Release, Ordering::Relaxed)
            {
                assert_eq!(new_state, ONE_WRITER | READERS_PARKED | WRITERS_PARKED);
                parked = READERS_PARKED | WRITERS_PARKED;
            }
        }

        if parked == (READERS_PARKED | WRITERS_PARKED) {
            self.state.store(WRITERS_PARKED, Ordering::Release);
            parked = READERS_PARKED;
        }

        if parked == READERS_PARKED {
            return unsafe {
                parking_lot_core::unpark_all((self as *const _ as usize) + 1, UnparkToken(0));
            };
        }

        assert_eq!(parked, WRITERS_PARKED);
        unsafe {
            parking_lot_core::unpark_one(self as *const _ as usize, |_| UnparkToken(0));
        }
    }

    #[inline(always)]
    fn try_lock_shared_fast(&self) -> bool {
        let state = self.state.load(Ordering::Relaxed);

        if let Some(new_state) = state.checked_add(ONE_READER) {
            if new_state & ONE_WRITER != ONE_WRITER {
                return self
                    .state
                    .compare_exchange_weak(state, new_state, Ordering::Acquire, Ordering::Relaxed)
                    .is_ok();
            }
        }

        false
    }

    #[cold]
    fn try_lock_shared_slow(&self) -> bool {
        let mut state = self.state.load(Ordering::Relaxed);

        while let Some(new_state) = state.checked_add(ONE_READER) {
            if new_state & ONE_WRITER == ONE_WRITER {
                break;
            }

            match self.state.compare_exchange_weak(
                state,
                new_state,
                Ordering::Acquire,
                Ordering::Relaxed,
            ) {
                Ok(_) => return true,
                Err(e) => state = e,
            }
        }

        false
    }

    #[cold]
    fn lock_shared_slow(&self) {
        loop {
            let mut spin = SpinWait::new();
            let mut state = self.state.load(Ordering::Relaxed);

            loop {
                let mut backoff = SpinWait::new();
                while let Some(new_state) = state.checked_add(ONE_READER) {
                    assert_ne!(
                        new_state & ONE_WRITER,
                        ONE_WRITER,
                        "reader count overflowed",
                    );

                    if self
                        .state
                        .compare_exchange_weak(
                            state,
                            new_state,
                            Ordering::Acquire,
                            Ordering::Relaxed,
                        )
                        .is_ok()
                    {
                        return;
                    }

                    backoff.spin_no_yield();
                    state = self.state.load(Ordering::Relaxed);
                }

                if state & READERS_PARKED == 0 {
                    if spin.spin() {
                        state = self.state.load(Ordering::Relaxed);
                        continue;
                    }

                    if let Err(e) = self.state.compare_exchange_weak(
                        state,
                        state | READERS_PARKED,
                        Ordering::Relaxed,
                        Ordering::Relaxed,
                    ) {
                        state = e;
                        continue;
                    }
                }

                let _ = unsafe {
                    parking_lot_core::park(
                        (self as *const _ as usize) + 1,
                        || {
                            let state = self.state.load(Ordering::Relaxed);
                            (state & ONE_WRITER == ONE_WRITER) && (state & READERS_PARKED != 0)
                        },
                        || {},
                        |_, _| {},
                        ParkToken(0),
                        None,
                    )
                };

                break;
            }
        }
    }

    #[cold]
    fn unlock_shared_slow(&self) {
        if self
            .state
            .compare_exchange(WRITERS_PARKED, 0, Ordering::Relaxed, Ordering::Relaxed)
            .is_ok()
        {
            unsafe {
                parking_lot_core::unpark_one(self as *const _ as usize, |_| UnparkToken(0));
            }
        }
    }
}
