//! Driving futures on an executor that polls only woken tasks (shuttle's `block_on`: the task
//! sleeps until its waker is invoked), with seeded cancellation (F4), waker swapping and spurious
//! polls (F6).

use fibre_verif_rt::ctx::{fault_fired, FaultKind};
use serde::{Deserialize, Serialize};
use std::future::Future;
use std::pin::Pin;
use std::sync::atomic::{AtomicBool, Ordering};
use std::sync::Arc;
use std::task::{Context, Poll, Wake, Waker};

/// Cancellation / polling plan of one async operation.
#[derive(Clone, Copy, Debug, Default, Serialize, Deserialize, PartialEq)]
pub struct Plan {
  /// drop the future after it returned `Pending` this many times (0 = never cancel)
  pub cancel_after: u8,
  /// extra scheduling rounds between the decision to cancel and the drop (the future may be
  /// woken in that window: "woken but not re-polled")
  pub linger: u8,
  /// poll with a fresh `Waker` object every time (`will_wake` is false)
  pub swap_waker: bool,
  /// re-poll once without having been woken
  pub spurious_poll: bool,
}

impl Plan {
  pub const NONE: Plan = Plan { cancel_after: 0, linger: 0, swap_waker: false, spurious_poll: false };
}

struct Relay {
  inner: Waker,
  woken: AtomicBool,
}

impl Wake for Relay {
  fn wake(self: Arc<Self>) {
    fibre_verif_rt::ctx::probe("async_waker_invoked_by_library");
    self.woken.store(true, Ordering::SeqCst);
    self.inner.wake_by_ref();
  }
  fn wake_by_ref(self: &Arc<Self>) {
    fibre_verif_rt::ctx::probe("async_waker_invoked_by_library");
    self.woken.store(true, Ordering::SeqCst);
    self.inner.wake_by_ref();
  }
}

struct Driver<F: Future> {
  fut: Option<Pin<Box<F>>>,
  plan: Plan,
  pendings: u8,
  cancelling: bool,
  linger_left: u8,
  relay: Option<Arc<Relay>>,
  spurious_done: bool,
}

impl<F: Future> Future for Driver<F> {
  type Output = Option<F::Output>;

  fn poll(self: Pin<&mut Self>, cx: &mut Context<'_>) -> Poll<Self::Output> {
    // Driver is Unpin: the inner future is boxed.
    let this = unsafe { self.get_unchecked_mut() };
    if this.cancelling {
      if this.linger_left > 0 {
        this.linger_left -= 1;
        cx.waker().wake_by_ref();
        return Poll::Pending;
      }
      let woken = this.relay.as_ref().map(|r| r.woken.load(Ordering::SeqCst)).unwrap_or(false);
      this.fut = None; // drop the pending future here
      fault_fired(if woken { FaultKind::FutureCancelledAfterWake } else { FaultKind::FutureCancelled });
      return Poll::Ready(None);
    }
    let relay = if this.plan.swap_waker || this.relay.is_none() {
      if this.relay.is_some() {
        fault_fired(FaultKind::WakerSwapped);
      }
      let r = Arc::new(Relay { inner: cx.waker().clone(), woken: AtomicBool::new(false) });
      this.relay = Some(r.clone());
      r
    } else {
      let r = this.relay.as_ref().unwrap().clone();
      r.woken.store(false, Ordering::SeqCst);
      r
    };
    let waker = Waker::from(relay);
    let mut icx = Context::from_waker(&waker);
    match this.fut.as_mut().unwrap().as_mut().poll(&mut icx) {
      Poll::Ready(v) => {
        if this.pendings > 0 {
          fibre_verif_rt::ctx::probe("async_op_completed_after_pending");
        }
        this.fut = None;
        Poll::Ready(Some(v))
      }
      Poll::Pending => {
        fibre_verif_rt::ctx::probe("async_op_returned_pending");
        this.pendings = this.pendings.saturating_add(1);
        if this.plan.cancel_after > 0 && this.pendings >= this.plan.cancel_after {
          this.cancelling = true;
          this.linger_left = this.plan.linger;
          cx.waker().wake_by_ref();
        } else if this.plan.spurious_poll && !this.spurious_done {
          this.spurious_done = true;
          fault_fired(FaultKind::SpuriousPoll);
          cx.waker().wake_by_ref();
        }
        Poll::Pending
      }
    }
  }
}

/// Run `fut` to completion (or to its planned cancellation) on the current simulated thread.
/// `None` = the future was dropped while pending.
pub fn drive<F: Future>(fut: F, plan: Plan) -> Option<F::Output> {
  shuttle::future::block_on(Driver {
    fut: Some(Box::pin(fut)),
    plan,
    pendings: 0,
    cancelling: false,
    linger_left: 0,
    relay: None,
    spurious_done: false,
  })
}
