//! Which lanes decide which property; replay; self-tests.

use crate::chan::adapt::Flavour;
use crate::chan::gen::{ConcFamily, ConcProfile};
use crate::chan::spmc::SpmcFamily;
use crate::chan::topic::TopicFamily;
use crate::lock::LockFamily;
use crate::cache::{CacheFamily, CacheProfile};
use crate::core::batch::{Family, Violation};
use crate::core::check::{lane, CheckSpec};
use serde_json::Value;

fn conc(name: &'static str, f: impl FnOnce(&mut ConcProfile)) -> ConcFamily {
  let mut p = ConcProfile::general(name);
  f(&mut p);
  ConcFamily { profile: p }
}

const CHAN_ASSUME: &[&str] = &[
  "shuttle executes every atomic as SeqCst: a change that only weakens a memory ordering is invisible",
  "scheduling points are the facade's atomics, Mutex, park/unpark, yield and spin hints; code between two of them runs atomically",
  "bounds: <= 3 producers x <= 10 tokens, <= 3 consumers, capacities {1,2,3,4,5,8}",
];

fn spmc(faults: bool, asyncness: u8, cancel: bool, lifecycle: bool) -> SpmcFamily {
  SpmcFamily { faults, asyncness, cancel, lifecycle }
}

fn topic(faults: bool, asyncness: u8, cancel: bool, lifecycle: bool, dynamic_subs: bool) -> TopicFamily {
  TopicFamily { faults, asyncness, cancel, lifecycle, dynamic_subs }
}

fn cache(f: impl FnOnce(&mut CacheProfile)) -> CacheFamily {
  let mut p = CacheProfile { faults: true, expiry: false, loader: false, listener: false, bounded: false, async_clients: true, bulk_ops: true, loader_race: false, reinsert_race: false };
  f(&mut p);
  CacheFamily { profile: p }
}

const CACHE_ASSUME: &[&str] = &[
  "shuttle executes every atomic as SeqCst; the cache's own std atomics (entry timestamps, metrics) are not scheduling points - interleavings are explored at lock, channel and park operations",
  "rayon is replaced by a sequential shim: interleavings between the per-shard closures of one multi_* call are not explored",
  "bounds: 2-4 clients x <=8 operations, 4 keys, shards 1/2/4",
];

pub fn check_spec(id: &str) -> Option<CheckSpec> {
  let assumptions: Vec<String> = CHAN_ASSUME.iter().map(|s| s.to_string()).collect();
  let spec = match id {
    "C01" => CheckSpec {
      property: id.into(),
      level: "exploration",
      lanes: vec![
        lane("conc/all-flavours/faults", conc("all", |_| {}), 300_000, 9_000_000),
        lane("conc/all-flavours/no-faults", conc("nofault", |p| p.faults = false), 150_000, 4_500_000),
        lane("conc/sync-only", conc("sync", |p| { p.asyncness = 0; p.cancel = false; }), 150_000, 4_500_000),
        lane("shared-handle/close-vs-send", crate::chan::shared::SharedFamily { faults: true }, 100_000, 3_000_000),
      ],
      assumptions,
      notes: vec![],
    },
    "C02" => CheckSpec {
      property: id.into(),
      level: "exploration",
      lanes: vec![
        lane("conc/order/faults", conc("order", |p| { p.lifecycle = false; p.max_tokens_per_producer = 12; }), 300_000, 9_000_000),
        lane("conc/order/no-faults", conc("order-nf", |p| { p.lifecycle = false; p.faults = false; p.max_tokens_per_producer = 12; }), 150_000, 4_500_000),
      ],
      assumptions,
      notes: vec![],
    },
    "C03" => CheckSpec {
      property: id.into(),
      level: "exploration",
      lanes: vec![
        lane("conc/bounded", conc("bounded", |p| { p.flavours = vec![Flavour::SpscBounded, Flavour::MpscBounded, Flavour::MpmcBounded, Flavour::SpscRendezvous, Flavour::MpscRendezvous, Flavour::MpmcRendezvous]; }), 300_000, 9_000_000),
        lane("conc/bounded/no-faults", conc("bounded-nf", |p| { p.faults = false; p.flavours = vec![Flavour::SpscBounded, Flavour::MpscBounded, Flavour::MpmcBounded, Flavour::SpscRendezvous, Flavour::MpscRendezvous, Flavour::MpmcRendezvous]; }), 150_000, 4_500_000),
      ],
      assumptions,
      notes: vec![],
    },
    "C04" => CheckSpec {
      property: id.into(),
      level: "exploration",
      lanes: vec![
        lane("conc/lifecycle", conc("lifecycle", |p| { p.hold_open_pct = 10; }), 300_000, 9_000_000),
        lane("conc/lifecycle/no-faults", conc("lifecycle-nf", |p| { p.hold_open_pct = 10; p.faults = false; }), 150_000, 4_500_000),
        lane("spmc/lifecycle", spmc(true, 2, true, true), 100_000, 3_000_000),
        lane("topic/lifecycle", topic(true, 2, true, true, true), 30_000, 1_000_000),
        // one sender handle shared by reference: close() racing with a send on the same handle
        lane("shared-handle/close-vs-send", crate::chan::shared::SharedFamily { faults: true }, 200_000, 6_000_000),
      ],
      assumptions,
      notes: vec![],
    },
    "C05" => CheckSpec {
      property: id.into(),
      level: "exploration",
      lanes: vec![
        lane("conc/sync/liveness", conc("sync-live", |p| { p.asyncness = 0; p.cancel = false; p.hold_open_pct = 60; }), 400_000, 12_000_000),
        lane("conc/sync/liveness/no-faults", conc("sync-live-nf", |p| { p.asyncness = 0; p.cancel = false; p.hold_open_pct = 60; p.faults = false; }), 200_000, 6_000_000),
        // multi-producer bounded flavours only: claim / overshoot / credit-window races need producers that collide
        lane("conc/sync/liveness/bounded-contention", conc("sync-live-bc", |p| { p.asyncness = 0; p.cancel = false; p.hold_open_pct = 60; p.flavours = vec![Flavour::MpscBounded, Flavour::MpmcBounded]; }), 300_000, 9_000_000),
        // the bare register / re-check / park vs publish / notify handshake on a channel that is full or empty
        // most of the time (capacity 1-2, blocking single-item forms only)
        lane("conc/sync/liveness/tight-handshake", conc("sync-live-tight", |p| { p.asyncness = 0; p.cancel = false; p.lifecycle = false; p.hold_open_pct = 30; p.caps = vec![1, 1, 2]; p.blocking_only = true; p.flavours = vec![Flavour::SpscBounded, Flavour::MpscBounded, Flavour::MpmcBounded, Flavour::SpscRendezvous, Flavour::MpscRendezvous, Flavour::MpmcRendezvous]; }), 300_000, 9_000_000),
        // consumers that go idle (keep the handle, receive nothing) at moments when all they drained is visible to the
        // producers: a sender that can proceed must do so without further help from the receiving side
        lane("conc/sync/liveness/idle-consumer", conc("sync-live-idle", |p| { p.asyncness = 0; p.cancel = false; p.hold_open_pct = 0; p.caps = vec![1, 2, 2, 3]; p.idle_consumer = true; p.flavours = vec![Flavour::SpscBounded, Flavour::MpscBounded, Flavour::MpmcBounded]; }), 200_000, 6_000_000),
        lane("spmc/sync/liveness", spmc(true, 0, false, true), 150_000, 4_500_000),
        lane("topic/sync/liveness", topic(true, 0, false, true, true), 100_000, 3_000_000),
      ],
      assumptions,
      notes: vec![],
    },
    "C06" => CheckSpec {
      property: id.into(),
      level: "exploration",
      lanes: vec![
        lane("conc/async/liveness", conc("async-live", |p| { p.asyncness = 1; p.timed = false; p.hold_open_pct = 60; }), 300_000, 9_000_000),
        lane("conc/mixed/liveness", conc("mixed-live", |p| { p.asyncness = 2; p.hold_open_pct = 60; }), 300_000, 9_000_000),
        // several async parties on a tiny multi-consumer queue, half of the operations re-polled while pending: a future
        // that completes on its own while a notifier has already picked its queued waiter must pass that wake on
        lane("conc/async/liveness/contended-repolled", conc("async-live-repoll", |p| { p.asyncness = 1; p.timed = false; p.hold_open_pct = 0; p.caps = vec![1, 1, 2]; p.spurious_poll_in = 2; p.flavours = vec![Flavour::MpmcBounded, Flavour::MpmcUnbounded, Flavour::MpscBounded, Flavour::MpmcRendezvous]; }), 300_000, 9_000_000),
        lane("conc/mixed/liveness/idle-consumer", conc("mixed-live-idle", |p| { p.asyncness = 2; p.hold_open_pct = 0; p.caps = vec![1, 2, 2, 3]; p.idle_consumer = true; p.flavours = vec![Flavour::SpscBounded, Flavour::MpscBounded, Flavour::MpmcBounded]; }), 200_000, 6_000_000),
        lane("spmc/async/liveness", spmc(true, 1, true, true), 100_000, 3_000_000),
        lane("spmc/mixed/liveness", spmc(true, 2, true, true), 100_000, 3_000_000),
        lane("topic/mixed/liveness", topic(true, 2, true, true, true), 30_000, 1_000_000),
      ],
      assumptions,
      notes: vec![],
    },
    "C09" => CheckSpec {
      property: id.into(),
      level: "exploration",
      lanes: vec![
        lane("conc/teardown", conc("teardown", |_| {}), 300_000, 9_000_000),
        lane("spmc/teardown", spmc(true, 2, true, true), 100_000, 3_000_000),
        lane("topic/teardown", topic(true, 2, true, true, true), 30_000, 1_000_000),
      ],
      assumptions,
      notes: vec![],
    },
    "C07" => CheckSpec {
      property: id.into(),
      level: "exploration",
      lanes: vec![
        lane("spmc/mixed/faults", spmc(true, 2, true, true), 300_000, 9_000_000),
        lane("spmc/mixed/no-faults", spmc(false, 2, true, true), 150_000, 4_500_000),
        lane("spmc/sync", spmc(true, 0, false, true), 150_000, 4_500_000),
        lane("spmc/no-cancel/no-lifecycle", spmc(true, 2, false, false), 150_000, 4_500_000),
      ],
      assumptions,
      notes: vec!["usage restriction: one thread drives a given receiver handle at a time".into()],
    },
    "C08" => CheckSpec {
      property: id.into(),
      level: "exploration",
      lanes: vec![
        lane("topic/mixed/faults", topic(true, 2, true, true, true), 300_000, 9_000_000),
        lane("topic/mixed/no-faults", topic(false, 2, true, true, true), 150_000, 4_500_000),
        lane("topic/sync/static-subs", topic(true, 0, false, false, false), 150_000, 4_500_000),
        lane("topic/async/no-cancel", topic(true, 1, false, true, true), 150_000, 4_500_000),
      ],
      assumptions,
      notes: vec!["papaya::HashMap runs uninstrumented (atomically between scheduling points)".into()],
    },
    "C11" => CheckSpec {
      property: id.into(),
      level: "exploration",
      lanes: vec![
        lane("cache/unbounded", cache(|_| {}), 40_000, 1_200_000),
        lane("cache/bounded", cache(|p| p.bounded = true), 40_000, 1_200_000),
        lane("cache/bounded/loader+listener", cache(|p| { p.bounded = true; p.loader = true; p.listener = true; }), 30_000, 900_000),
        lane("cache/unbounded/no-faults", cache(|p| p.faults = false), 20_000, 600_000),
        lane("cache/loader/invalidate-race", cache(|p| { p.loader = true; p.loader_race = true; }), 30_000, 900_000),
        lane("cache/hist/exact-model", crate::cache::hist::HistFamily { snapshots: true, faults: true, stale_focus: false }, 10_000, 1_000_000),
      ],
      assumptions: CACHE_ASSUME.iter().map(|s| s.to_string()).collect(),
      notes: vec!["per-key oracle: a read may return only a value of its own key whose write was invoked before the read returned and that was not definitely overwritten/removed (an operation that began after the write completed and completed before the read began); counters never exceed the computes started; on never-forgetting configurations compute increments are exact and or_insert inserts once".into()],
    },
    "C12" => CheckSpec {
      property: id.into(),
      level: "exploration",
      lanes: vec![
        lane("cache/hist/expiry", crate::cache::hist::HistFamily { snapshots: false, faults: true, stale_focus: false }, 16_000, 2_000_000),
        lane("cache/hist/expiry/no-faults", crate::cache::hist::HistFamily { snapshots: false, faults: false, stale_focus: false }, 8_000, 1_000_000),
        lane("cache/hist/expiry+snapshots", crate::cache::hist::HistFamily { snapshots: true, faults: true, stale_focus: false }, 8_000, 1_000_000),
        // (a focused lane HistFamily{stale_focus:true} exists but is not registered: see DESIGN.md section 9.2)
      ],
      assumptions: CACHE_ASSUME.iter().map(|s| s.to_string()).collect(),
      notes: vec!["exact sequential reference model (single driver): a read must miss when the whole operation lies at or after the entry's deadline and must hit (never-evicting caches) when it lies wholly before it".into()],
    },
    "C17" => CheckSpec {
      property: id.into(),
      level: "exploration",
      lanes: vec![
        lane("cache/hist/snapshots", crate::cache::hist::HistFamily { snapshots: true, faults: true, stale_focus: false }, 16_000, 2_000_000),
        lane("cache/hist/snapshots/no-faults", crate::cache::hist::HistFamily { snapshots: true, faults: false, stale_focus: false }, 8_000, 1_000_000),
      ],
      assumptions: CACHE_ASSUME.iter().map(|s| s.to_string()).collect(),
      notes: vec!["enumerations are judged key by key against the exact model; snapshot entries are read from the serialised form; the rebuilt cache is then driven further and finally settled and drained (capacity, current_cost)".into()],
    },
    "C13" => CheckSpec {
      property: id.into(),
      level: "exploration",
      lanes: vec![
        lane("cache/bounded", cache(|p| p.bounded = true), 40_000, 1_200_000),
        lane("cache/bounded/loader", cache(|p| { p.bounded = true; p.loader = true; }), 30_000, 900_000),
        lane("cache/bounded/no-faults", cache(|p| { p.bounded = true; p.faults = false; }), 20_000, 600_000),
        lane("cache/bounded/expiry", cache(|p| { p.bounded = true; p.expiry = true; p.listener = true; }), 20_000, 600_000),
        // insert / remove / re-insert of the same one or two keys from several threads on a tiny cache: the policy must hear
        // about a removal before a re-insert of the key can be admitted
        lane("cache/bounded/reinsert-race", cache(|p| { p.bounded = true; p.reinsert_race = true; }), 100_000, 1_500_000),
      ],
      assumptions: CACHE_ASSUME.iter().map(|s| s.to_string()).collect(),
      notes: vec!["quiescence = all clients joined, run_maintenance() repeated until residents and current_cost stop changing (<=40 passes)".into()],
    },
    "C14" => CheckSpec {
      property: id.into(),
      level: "exploration",
      lanes: vec![
        lane("cache/policy-direct", crate::cache::policy_seq::PolicyFamily, 300_000, 10_000_000),
        lane("cache/policy-in-system/bounded", cache(|p| p.bounded = true), 40_000, 1_200_000),
        lane("cache/policy-in-system/loader", cache(|p| { p.bounded = true; p.loader = true; }), 30_000, 900_000),
        lane("cache/policy-in-system/no-faults", cache(|p| { p.bounded = true; p.faults = false; }), 20_000, 600_000),
        lane("cache/policy-in-system/expiry", cache(|p| { p.bounded = true; p.expiry = true; p.listener = true; }), 20_000, 600_000),
      ],
      assumptions: CACHE_ASSUME.iter().map(|s| s.to_string()).collect(),
      notes: vec!["system view: every call the janitor and the handles make on the shard policies is recorded by a proxy policy and replayed against a reference bookkeeping of tracked keys".into()],
    },
    "C15" => CheckSpec {
      property: id.into(),
      level: "exploration",
      lanes: vec![
        lane("cache/loader/unbounded", cache(|p| { p.loader = true; }), 40_000, 1_200_000),
        lane("cache/loader/bounded", cache(|p| { p.loader = true; p.bounded = true; }), 30_000, 900_000),
        // only fetch_with vs remove / invalidate / clear over two keys: a miss after a completed invalidation must load anew
        lane("cache/loader/invalidate-race", cache(|p| { p.loader = true; p.loader_race = true; }), 40_000, 1_200_000),
      ],
      assumptions: CACHE_ASSUME.iter().map(|s| s.to_string()).collect(),
      notes: vec![],
    },
    "C16" => CheckSpec {
      property: id.into(),
      level: "exploration",
      lanes: vec![
        lane("cache/listener/bounded", cache(|p| { p.listener = true; p.bounded = true; }), 40_000, 1_200_000),
        lane("cache/listener/unbounded", cache(|p| { p.listener = true; }), 20_000, 600_000),
        lane("cache/listener/expiry", cache(|p| { p.listener = true; p.expiry = true; p.bounded = true; }), 30_000, 900_000),
      ],
      assumptions: CACHE_ASSUME.iter().map(|s| s.to_string()).collect(),
      notes: vec![],
    },
    "C18" => CheckSpec {
      property: id.into(),
      level: "exploration",
      lanes: vec![
        lane("ioc/instance", crate::ioc::IocFamily { container: crate::ioc::Where::Instance, faults: true, cycles: false }, 100_000, 4_000_000),
        lane("ioc/global", crate::ioc::IocFamily { container: crate::ioc::Where::Global, faults: true, cycles: false }, 50_000, 2_000_000),
        lane("ioc/instance/cycles", crate::ioc::IocFamily { container: crate::ioc::Where::Instance, faults: false, cycles: true }, 50_000, 2_000_000),
        lane("ioc/local", crate::ioc::IocFamily { container: crate::ioc::Where::Local, faults: false, cycles: true }, 30_000, 1_000_000),
      ],
      assumptions: vec![
        "shuttle executes every atomic as SeqCst: a change that only weakens a memory ordering is invisible".into(),
        "dashmap's map and parking_lot_core are stand-ins (the shard lock and once_cell's OnceCell run their real algorithms)".into(),
        "bounds: 1-4 threads x <=6 operations over 2-5 keys out of 12 (3 concrete types + 1 trait object x unnamed/'a'/'b')".into(),
      ],
      notes: vec![],
    },
    "C19" => CheckSpec {
      property: id.into(),
      level: "exploration",
      lanes: vec![
        // (the pipeline runs ~30 000 cases / s: the two findings of this family needed ~10^5-10^6 cases, so the quick
        // tier takes a million)
        lane("log/routing", crate::logpipe::LogFamily { faults: true, stop_anytime: false }, 200_000, 1_500_000),
        lane("log/stop-anytime", crate::logpipe::LogFamily { faults: true, stop_anytime: true }, 500_000, 3_000_000),
        lane("log/stop-anytime/no-faults", crate::logpipe::LogFamily { faults: false, stop_anytime: true }, 300_000, 1_500_000),
      ],
      assumptions: vec![
        "shuttle executes every atomic as SeqCst: a change that only weakens a memory ordering is invisible".into(),
        "the pipeline is built by hook H7 (mirror of init_from_file's appender loop, nothing installed globally); events enter at Dispatch::event / Log::log".into(),
        "bounds: 1-3 appenders, root + <=4 named loggers, 1-3 emitters x <=5 events, 8 targets x 5 levels".into(),
      ],
      notes: vec!["reference routing model computed from the generated configuration; completeness is required for events whose emission returned before the stop began on appenders with the blocking overflow policy".into()],
    },
    "C20" => CheckSpec {
      property: id.into(),
      level: "exploration",
      lanes: vec![
        lane("log/roller", crate::rollsim::RollFamily, 60_000, 2_000_000),
        lane("log/encoders-in-pipeline", crate::logpipe::LogFamily { faults: false, stop_anytime: false }, 40_000, 1_500_000),
      ],
      assumptions: vec![
        "the roller runs over the real file system in a scratch directory; disk errors are not injected (the roller has no I/O seam), restarts are clean (the roller is dropped and re-opened)".into(),
        "encoder totality is exercised in situ: generated messages (quotes, backslashes, newlines, control and non-ASCII characters, empty, 400+ bytes) flow through the real json_lines / pattern encoders inside the simulated pipeline and are parsed back; pattern strings are the default and one plain pattern only".into(),
      ],
      notes: vec!["the encoder half of C20 is a pure-input property; it is covered here only as far as the simulated pipeline's generated workload reaches (see DESIGN.md section 6 C20)".into()],
    },
    "C10" => CheckSpec {
      property: id.into(),
      level: "exploration",
      lanes: vec![
        lane("lock/faults", LockFamily { faults: true, cancel: true, starve: false }, 300_000, 9_000_000),
        lane("lock/no-faults", LockFamily { faults: false, cancel: true, starve: false }, 150_000, 4_500_000),
        lane("lock/no-cancel", LockFamily { faults: true, cancel: false, starve: false }, 150_000, 4_500_000),
        lane("lock/writer-starvation", LockFamily { faults: false, cancel: false, starve: true }, 300, 5_000),
      ],
      assumptions: vec![
        "shuttle executes every atomic as SeqCst: a change that only weakens a memory ordering is invisible".into(),
        "bounds: 2-4 threads x <=5 acquisitions, 0-3 yields per critical section".into(),
        "writer non-starvation is decided under a targeted adversarial scheduler mode (readers have absolute priority once the writer has queued); the bound is 100 read sections per reader thread".into(),
      ],
      notes: vec![],
    },
    _ => return None,
  };
  Some(spec)
}

fn run_family_replay<F: Family>(fam: F, v: &Value) -> Result<(Vec<Violation>, u64, Vec<u16>), String> {
  let sc: F::Sc = serde_json::from_value(v["scenario"].clone()).map_err(|e| format!("cannot parse scenario: {e}"))?;
  let ev = crate::core::run::on_fresh_thread(move || fam.run(&sc, true));
  Ok((ev.violations, ev.out.stats.trace_hash, ev.out.stats.trace))
}

pub fn replay(path: &str) -> i32 {
  let s = match std::fs::read_to_string(path) {
    Ok(s) => s,
    Err(e) => {
      println!("HARNESS-ERROR: cannot read {path}: {e}");
      return 2;
    }
  };
  let v: Value = match serde_json::from_str(&s) {
    Ok(v) => v,
    Err(e) => {
      println!("HARNESS-ERROR: cannot parse {path}: {e}");
      return 2;
    }
  };
  let fam = v["family"].as_str().unwrap_or("");
  let res = match fam {
    "CH-CONC" => run_family_replay(conc("replay", |_| {}), &v),
    "CH-SPMC" => run_family_replay(spmc(true, 2, true, true), &v),
    "CH-TOPIC" => run_family_replay(topic(true, 2, true, true, true), &v),
    "CACHE-CONC" => run_family_replay(cache(|_| {}), &v),
    "CACHE-HIST" => run_family_replay(crate::cache::hist::HistFamily { snapshots: true, faults: true, stale_focus: false }, &v),
    "CACHE-POLICY" => run_family_replay(crate::cache::policy_seq::PolicyFamily, &v),
    "IOC" => run_family_replay(crate::ioc::IocFamily { container: crate::ioc::Where::Instance, faults: true, cycles: true }, &v),
    "LOG-PIPE" => run_family_replay(crate::logpipe::LogFamily { faults: true, stop_anytime: true }, &v),
    "ROLLER" => run_family_replay(crate::rollsim::RollFamily, &v),
    "CH-SHARED" => run_family_replay(crate::chan::shared::SharedFamily { faults: true }, &v),
    "LOCK" => run_family_replay(LockFamily { faults: true, cancel: true, starve: false }, &v),
    _ => Err(format!("unknown family {fam}")),
  };
  match res {
    Err(e) => {
      println!("HARNESS-ERROR: {e}");
      2
    }
    Ok((viols, hash, _trace)) => {
      let want_p = v["violation"]["property"].as_str().unwrap_or("");
      let want_c = v["violation"]["class"].as_str().unwrap_or("");
      let want_hash = v["trace_hash"].as_str().unwrap_or("");
      let got_hash = format!("{hash:016x}");
      let hit = viols.iter().find(|x| x.property == want_p && x.class == want_c);
      println!("replay {path}: trace_hash recorded={want_hash} replayed={got_hash} ({})", if want_hash == got_hash { "identical" } else { "DIFFERENT" });
      match hit {
        Some(x) => {
          println!("VIOLATION property={} replay={}", x.property, path);
          println!("  class={} detail: {}", x.class, x.detail);
          if want_hash != got_hash {
            println!("HARNESS-ERROR: violation reproduced but the decision trace differs");
            return 2;
          }
          1
        }
        None => {
          println!("NOT-REPRODUCED: expected {want_p}/{want_c}, got {:?}", viols.iter().map(|x| format!("{}/{}", x.property, x.class)).collect::<Vec<_>>());
          0
        }
      }
    }
  }
}

/// `fibsim selftest determinism [--runs N]`: every lane of every registered check is scanned
/// three times (1 worker in this process, 16 workers in this process, 3 workers in a fresh child
/// process) in survey mode; the per-run event-log hashes (decision trace, steps, PRNG draws,
/// virtual time, reached states, violation signatures) must be identical run by run.
/// `fibsim selftest hashes <property> <lane> <runs> <jobs>` prints one lane's hashes (child mode).
pub fn selftest(args: &[String]) -> i32 {
  use crate::core::batch::LaneCfg;
  use crate::core::check::lane_seed;
  use crate::core::known::Known;
  let known = Known::default();
  let all = ["C01", "C02", "C03", "C04", "C05", "C06", "C07", "C08", "C09", "C10", "C11", "C12", "C13", "C14", "C15", "C16", "C17", "C18", "C19", "C20"];
  let scan = |prop: &str, li: usize, runs: u64, jobs: usize| -> Option<Vec<(u64, u64)>> {
    let spec = check_spec(prop)?;
    let l = spec.lanes.get(li)?;
    let cfg = LaneCfg {
      lane: l.name.clone(),
      property: prop.to_string(),
      batch_seed: lane_seed(20260923, li),
      runs,
      jobs,
      stop_on_first: false,
      replay_dir: String::new(),
      shrink_budget: 0,
      survey: true,
      part: None,
      lane_index: li,
      tier_quick: true,
      collect_hashes: true,
    };
    let r = (l.runner)(&cfg, &known);
    let mut h = r.stats.run_hashes;
    h.sort();
    Some(h)
  };
  match args.get(1).map(|s| s.as_str()) {
    Some("hashes") => {
      let prop = &args[2];
      let li: usize = args[3].parse().unwrap();
      let runs: u64 = args[4].parse().unwrap();
      let jobs: usize = args[5].parse().unwrap();
      match scan(prop, li, runs, jobs) {
        Some(h) => {
          let mut acc = crate::core::rng::FNV_OFFSET;
          for (i, x) in &h {
            acc = crate::core::rng::fnv1a(crate::core::rng::fnv1a(acc, *i), *x);
          }
          println!("HASHES {} {:016x}", h.len(), acc);
          0
        }
        None => 2,
      }
    }
    Some("determinism") => {
      let mut runs = 3000u64;
      if let Some(p) = args.iter().position(|a| a == "--runs") {
        runs = args[p + 1].parse().unwrap_or(runs);
      }
      let mut bad = 0;
      let mut lanes = 0;
      for prop in all {
        let Some(spec) = check_spec(prop) else { continue };
        for li in 0..spec.lanes.len() {
          // the starvation lane has few, long runs
          let n = runs.min(spec.lanes[li].quick_runs);
          let a = scan(prop, li, n, 1).unwrap();
          let b = scan(prop, li, n, 16).unwrap();
          let mut acc = crate::core::rng::FNV_OFFSET;
          for (i, x) in &a {
            acc = crate::core::rng::fnv1a(crate::core::rng::fnv1a(acc, *i), *x);
          }
          let child = std::process::Command::new(std::env::current_exe().unwrap())
            .args(["selftest", "hashes", prop, &li.to_string(), &n.to_string(), "3"])
            .output();
          let child_line = child.ok().map(|o| String::from_utf8_lossy(&o.stdout).lines().filter(|l| l.starts_with("HASHES")).last().unwrap_or("").to_string()).unwrap_or_default();
          let want = format!("HASHES {} {:016x}", a.len(), acc);
          lanes += 1;
          let same_jobs = a == b;
          let same_proc = child_line == want;
          if !same_jobs || !same_proc {
            bad += 1;
            let first = a.iter().zip(b.iter()).find(|(x, y)| x != y).map(|(x, _)| x.0);
            println!("DETERMINISM-DIVERGENCE property={prop} lane={} jobs1-vs-jobs16-equal={same_jobs} fresh-process-equal={same_proc} first_diverging_run={first:?}", spec.lanes[li].name);
          } else {
            println!("  determinism ok: {prop} lane {:<32} {} runs x 3 executions (1 worker, 16 workers, fresh process with 3 workers)", spec.lanes[li].name, a.len());
          }
        }
      }
      println!("selftest determinism: {lanes} lanes, {bad} divergent");
      if bad > 0 {
        2
      } else {
        0
      }
    }
    _ => {
      println!("usage: fibsim selftest determinism [--runs N]");
      2
    }
  }
}
