//! Adapter layer: maps one generic operation alphabet onto every point-to-point handle family
//! (sync and async form of each), so that "one of the send forms forgot X" is found by
//! construction rather than by somebody writing that particular test.

use super::drive::{drive, Plan};
use super::tok::Tok;
use fibre::error::{BatchSendErrorReason, TryRecvError, TrySendError};
use fibre::{RecvErrorTimeout, SendError};
use serde::{Deserialize, Serialize};
use std::time::Duration;

#[derive(Clone, Copy, Debug, Serialize, Deserialize, PartialEq, Eq, Hash, PartialOrd, Ord)]
pub enum SRes {
  Ok,
  Full,
  Closed,
  Sent,
  Cancelled,
  Unsupported,
}

#[derive(Clone, Debug)]
pub struct SendOut {
  pub res: SRes,
  /// number of leading input tokens the channel accepted (definite)
  pub sent: usize,
  /// ids handed back by the error value / left in the in-place vector, in order
  pub back: Vec<u32>,
  /// for a cancelled by-value future: ids whose fate is unknown to the caller
  pub unknown: Vec<u32>,
}

#[derive(Clone, Copy, Debug, Serialize, Deserialize, PartialEq, Eq, Hash, PartialOrd, Ord)]
pub enum RRes {
  Got,
  Empty,
  Timeout,
  Disconnected,
  Cancelled,
  Unsupported,
}

#[derive(Clone, Debug)]
pub struct RecvOut {
  pub res: RRes,
  pub got: Vec<u32>,
}

fn ids(v: &[Tok]) -> Vec<u32> {
  v.iter().map(|t| t.id()).collect()
}

impl SendOut {
  fn unsupported(back: Vec<Tok>) -> SendOut {
    SendOut { res: SRes::Unsupported, sent: 0, back: ids(&back), unknown: vec![] }
  }
  fn from_try<T>(r: Result<(), TrySendError<Tok>>) -> SendOut {
    let _ = std::marker::PhantomData::<T>;
    match r {
      Ok(()) => SendOut { res: SRes::Ok, sent: 1, back: vec![], unknown: vec![] },
      Err(TrySendError::Full(t)) => SendOut { res: SRes::Full, sent: 0, back: vec![t.id()], unknown: vec![] },
      Err(TrySendError::Closed(t)) => SendOut { res: SRes::Closed, sent: 0, back: vec![t.id()], unknown: vec![] },
      Err(TrySendError::Sent(t)) => SendOut { res: SRes::Sent, sent: 0, back: vec![t.id()], unknown: vec![] },
    }
  }
  fn from_send(id: u32, r: Option<Result<(), SendError>>) -> SendOut {
    match r {
      Some(Ok(())) => SendOut { res: SRes::Ok, sent: 1, back: vec![], unknown: vec![] },
      // blocking `send` consumes the value on failure (its error type does not carry it)
      Some(Err(SendError::Closed)) => SendOut { res: SRes::Closed, sent: 0, back: vec![], unknown: vec![] },
      Some(Err(SendError::Sent)) => SendOut { res: SRes::Sent, sent: 0, back: vec![], unknown: vec![] },
      None => SendOut { res: SRes::Cancelled, sent: 0, back: vec![], unknown: vec![id] },
    }
  }
  fn from_batch(input: &[u32], r: Option<Result<usize, fibre::SendBatchError<Tok>>>) -> SendOut {
    match r {
      Some(Ok(n)) => SendOut { res: SRes::Ok, sent: n, back: vec![], unknown: vec![] },
      Some(Err(e)) => SendOut { res: SRes::Closed, sent: e.sent, back: ids(&e.unsent), unknown: vec![] },
      None => SendOut { res: SRes::Cancelled, sent: 0, back: vec![], unknown: input.to_vec() },
    }
  }
  fn from_try_batch(r: Result<usize, fibre::TrySendBatchError<Tok>>) -> SendOut {
    match r {
      Ok(n) => SendOut { res: SRes::Ok, sent: n, back: vec![], unknown: vec![] },
      Err(e) => SendOut {
        res: if e.reason == BatchSendErrorReason::Full { SRes::Full } else { SRes::Closed },
        sent: e.sent,
        back: ids(&e.unsent),
        unknown: vec![],
      },
    }
  }
  /// in-place forms: whatever is left in `v` afterwards is the unsent tail
  fn from_mut(before: usize, v: &mut Vec<Tok>, r: Option<Result<usize, SendError>>, try_form: bool) -> SendOut {
    let back = ids(v);
    let sent = before - v.len();
    let res = match r {
      Some(Ok(n)) => {
        if n != sent {
          // reported count disagrees with what left the vector: surface as an inconsistent Ok
          return SendOut { res: SRes::Ok, sent: n, back, unknown: vec![u32::MAX] };
        }
        if !v.is_empty() && try_form {
          SRes::Full
        } else {
          SRes::Ok
        }
      }
      Some(Err(SendError::Closed)) => SRes::Closed,
      Some(Err(SendError::Sent)) => SRes::Sent,
      None => SRes::Cancelled,
    };
    v.clear(); // drops the handed-back tokens (exactly once each)
    SendOut { res, sent, back, unknown: vec![] }
  }
}

impl RecvOut {
  fn one(r: Option<Result<Tok, fibre::RecvError>>) -> RecvOut {
    match r {
      Some(Ok(t)) => RecvOut { res: RRes::Got, got: vec![t.id()] },
      Some(Err(_)) => RecvOut { res: RRes::Disconnected, got: vec![] },
      None => RecvOut { res: RRes::Cancelled, got: vec![] },
    }
  }
  fn try_one(r: Result<Tok, TryRecvError>) -> RecvOut {
    match r {
      Ok(t) => RecvOut { res: RRes::Got, got: vec![t.id()] },
      Err(TryRecvError::Empty) => RecvOut { res: RRes::Empty, got: vec![] },
      Err(TryRecvError::Disconnected) => RecvOut { res: RRes::Disconnected, got: vec![] },
    }
  }
  fn timed(r: Result<Tok, RecvErrorTimeout>) -> RecvOut {
    match r {
      Ok(t) => RecvOut { res: RRes::Got, got: vec![t.id()] },
      Err(RecvErrorTimeout::Timeout) => RecvOut { res: RRes::Timeout, got: vec![] },
      Err(RecvErrorTimeout::Disconnected) => RecvOut { res: RRes::Disconnected, got: vec![] },
    }
  }
  fn many(r: Option<Result<Vec<Tok>, fibre::RecvError>>) -> RecvOut {
    match r {
      Some(Ok(v)) => RecvOut { res: RRes::Got, got: ids(&v) },
      Some(Err(_)) => RecvOut { res: RRes::Disconnected, got: vec![] },
      None => RecvOut { res: RRes::Cancelled, got: vec![] },
    }
  }
  fn try_many(r: Result<Vec<Tok>, TryRecvError>) -> RecvOut {
    match r {
      Ok(v) => RecvOut { res: RRes::Got, got: ids(&v) },
      Err(TryRecvError::Empty) => RecvOut { res: RRes::Empty, got: vec![] },
      Err(TryRecvError::Disconnected) => RecvOut { res: RRes::Disconnected, got: vec![] },
    }
  }
  /// in-place forms: whatever arrived in `out` was received, whatever the call reports
  fn many_mut(out: &mut Vec<Tok>, r: Option<Result<usize, fibre::RecvError>>) -> RecvOut {
    let got = ids(out);
    out.clear();
    match r {
      Some(Ok(n)) => {
        if n != got.len() {
          let mut g = got;
          g.push(u32::MAX); // count mismatch marker
          return RecvOut { res: RRes::Got, got: g };
        }
        RecvOut { res: RRes::Got, got }
      }
      Some(Err(_)) => RecvOut { res: if got.is_empty() { RRes::Disconnected } else { RRes::Got }, got },
      None => RecvOut { res: if got.is_empty() { RRes::Cancelled } else { RRes::Got }, got },
    }
  }
  fn try_many_mut(out: &mut Vec<Tok>, r: Result<usize, TryRecvError>) -> RecvOut {
    let got = ids(out);
    out.clear();
    match r {
      Ok(n) => {
        if n != got.len() {
          let mut g = got;
          g.push(u32::MAX);
          return RecvOut { res: RRes::Got, got: g };
        }
        RecvOut { res: RRes::Got, got }
      }
      Err(TryRecvError::Empty) => RecvOut { res: if got.is_empty() { RRes::Empty } else { RRes::Got }, got },
      Err(TryRecvError::Disconnected) => RecvOut { res: if got.is_empty() { RRes::Disconnected } else { RRes::Got }, got },
    }
  }
}

/// Sender handle of some flavour, in sync or async form.
pub trait Tx: Send {
  fn is_async(&self) -> bool;
  fn send(&mut self, t: Tok, p: Plan) -> SendOut;
  fn try_send(&mut self, t: Tok) -> SendOut;
  fn send_batch(&mut self, v: Vec<Tok>, p: Plan) -> SendOut;
  fn try_send_batch(&mut self, v: Vec<Tok>) -> SendOut;
  fn send_batch_mut(&mut self, v: Vec<Tok>, p: Plan) -> SendOut;
  fn try_send_batch_mut(&mut self, v: Vec<Tok>) -> SendOut;
  /// true = Ok(()), false = Err(CloseError)
  fn close(&mut self) -> bool;
  fn is_closed(&self) -> bool;
  fn len(&self) -> Option<usize>;
  fn capacity(&self) -> Option<usize>;
  fn is_full(&self) -> Option<bool>;
  fn is_empty(&self) -> Option<bool>;
  fn try_clone(&self) -> Option<Box<dyn Tx>>;
  fn convert(self: Box<Self>) -> Box<dyn Tx>;
}

/// Receiver handle of some flavour, in sync or async form.
pub trait Rx: Send {
  fn is_async(&self) -> bool;
  fn recv(&mut self, p: Plan) -> RecvOut;
  fn try_recv(&mut self) -> RecvOut;
  fn recv_timeout(&mut self, d: Duration) -> RecvOut;
  fn recv_batch(&mut self, max: usize, p: Plan) -> RecvOut;
  fn try_recv_batch(&mut self, max: usize) -> RecvOut;
  fn recv_batch_mut(&mut self, max: usize, p: Plan) -> RecvOut;
  fn try_recv_batch_mut(&mut self, max: usize) -> RecvOut;
  /// `Stream::poll_next` (async form only); `Disconnected` = end of stream
  fn stream_next(&mut self, p: Plan) -> RecvOut;
  fn close(&mut self) -> bool;
  fn is_closed(&self) -> bool;
  fn len(&self) -> Option<usize>;
  fn capacity(&self) -> Option<usize>;
  fn is_full(&self) -> Option<bool>;
  fn is_empty(&self) -> Option<bool>;
  fn try_clone(&self) -> Option<Box<dyn Rx>>;
  fn convert(self: Box<Self>) -> Box<dyn Rx>;
}

pub enum Either<S, A> {
  S(S),
  A(A),
}

// ------------------------------------------------------------------------------------------
// Macro pieces. `$h` is `&mut` to the concrete handle.

macro_rules! tx_batch_methods {
  (yes) => {
    fn send_batch(&mut self, v: Vec<Tok>, p: Plan) -> SendOut {
      let input = ids(&v);
      match &mut self.0 {
        Either::S(h) => SendOut::from_batch(&input, Some(h.send_batch(v))),
        Either::A(h) => SendOut::from_batch(&input, drive(h.send_batch(v), p)),
      }
    }
    fn try_send_batch(&mut self, v: Vec<Tok>) -> SendOut {
      match &mut self.0 {
        Either::S(h) => SendOut::from_try_batch(h.try_send_batch(v)),
        Either::A(h) => SendOut::from_try_batch(h.try_send_batch(v)),
      }
    }
    fn send_batch_mut(&mut self, mut v: Vec<Tok>, p: Plan) -> SendOut {
      let before = v.len();
      match &mut self.0 {
        Either::S(h) => {
          let r = h.send_batch_mut(&mut v);
          SendOut::from_mut(before, &mut v, Some(r), false)
        }
        Either::A(h) => {
          let r = drive(h.send_batch_mut(&mut v), p);
          SendOut::from_mut(before, &mut v, r, false)
        }
      }
    }
    fn try_send_batch_mut(&mut self, mut v: Vec<Tok>) -> SendOut {
      let before = v.len();
      match &mut self.0 {
        Either::S(h) => {
          let r = h.try_send_batch_mut(&mut v);
          SendOut::from_mut(before, &mut v, Some(r), true)
        }
        Either::A(h) => {
          let r = h.try_send_batch_mut(&mut v);
          SendOut::from_mut(before, &mut v, Some(r), true)
        }
      }
    }
  };
  (no) => {
    fn send_batch(&mut self, v: Vec<Tok>, _p: Plan) -> SendOut {
      SendOut::unsupported(v)
    }
    fn try_send_batch(&mut self, v: Vec<Tok>) -> SendOut {
      SendOut::unsupported(v)
    }
    fn send_batch_mut(&mut self, v: Vec<Tok>, _p: Plan) -> SendOut {
      SendOut::unsupported(v)
    }
    fn try_send_batch_mut(&mut self, v: Vec<Tok>) -> SendOut {
      SendOut::unsupported(v)
    }
  };
}

macro_rules! intro_methods {
  // capacity() -> usize, is_full() present
  (bounded) => {
    fn len(&self) -> Option<usize> {
      Some(match &self.0 { Either::S(h) => h.len(), Either::A(h) => h.len() })
    }
    fn capacity(&self) -> Option<usize> {
      Some(match &self.0 { Either::S(h) => h.capacity(), Either::A(h) => h.capacity() })
    }
    fn is_full(&self) -> Option<bool> {
      Some(match &self.0 { Either::S(h) => h.is_full(), Either::A(h) => h.is_full() })
    }
    fn is_empty(&self) -> Option<bool> {
      Some(match &self.0 { Either::S(h) => h.is_empty(), Either::A(h) => h.is_empty() })
    }
  };
  // capacity() -> Option<usize> (rendezvous)
  (rendezvous) => {
    fn len(&self) -> Option<usize> {
      Some(match &self.0 { Either::S(h) => h.len(), Either::A(h) => h.len() })
    }
    fn capacity(&self) -> Option<usize> {
      match &self.0 { Either::S(h) => h.capacity(), Either::A(h) => h.capacity() }
    }
    fn is_full(&self) -> Option<bool> {
      Some(match &self.0 { Either::S(h) => h.is_full(), Either::A(h) => h.is_full() })
    }
    fn is_empty(&self) -> Option<bool> {
      Some(match &self.0 { Either::S(h) => h.is_empty(), Either::A(h) => h.is_empty() })
    }
  };
  // no capacity (unbounded mpsc)
  (unbounded) => {
    fn len(&self) -> Option<usize> {
      Some(match &self.0 { Either::S(h) => h.len(), Either::A(h) => h.len() })
    }
    fn capacity(&self) -> Option<usize> {
      None
    }
    fn is_full(&self) -> Option<bool> {
      None
    }
    fn is_empty(&self) -> Option<bool> {
      Some(match &self.0 { Either::S(h) => h.is_empty(), Either::A(h) => h.is_empty() })
    }
  };
}

macro_rules! clone_method {
  (yes, $tr:ident, $name:ident) => {
    fn try_clone(&self) -> Option<Box<dyn $tr>> {
      Some(match &self.0 {
        Either::S(h) => Box::new($name(Either::S(h.clone()))),
        Either::A(h) => Box::new($name(Either::A(h.clone()))),
      })
    }
  };
  (no, $tr:ident, $name:ident) => {
    fn try_clone(&self) -> Option<Box<dyn $tr>> {
      None
    }
  };
}

macro_rules! impl_tx {
  ($name:ident, $s:ty, $a:ty, batch=$batch:tt, intro=$intro:tt, clone=$clone:tt) => {
    pub struct $name(pub Either<$s, $a>);
    impl Tx for $name {
      fn is_async(&self) -> bool {
        matches!(self.0, Either::A(_))
      }
      fn send(&mut self, t: Tok, p: Plan) -> SendOut {
        let id = t.id();
        match &mut self.0 {
          Either::S(h) => SendOut::from_send(id, Some(h.send(t))),
          Either::A(h) => SendOut::from_send(id, drive(h.send(t), p)),
        }
      }
      fn try_send(&mut self, t: Tok) -> SendOut {
        match &mut self.0 {
          Either::S(h) => SendOut::from_try::<()>(h.try_send(t)),
          Either::A(h) => SendOut::from_try::<()>(h.try_send(t)),
        }
      }
      tx_batch_methods!($batch);
      fn close(&mut self) -> bool {
        match &mut self.0 {
          Either::S(h) => h.close().is_ok(),
          Either::A(h) => h.close().is_ok(),
        }
      }
      fn is_closed(&self) -> bool {
        match &self.0 {
          Either::S(h) => h.is_closed(),
          Either::A(h) => h.is_closed(),
        }
      }
      intro_methods!($intro);
      clone_method!($clone, Tx, $name);
      fn convert(self: Box<Self>) -> Box<dyn Tx> {
        match self.0 {
          Either::S(h) => Box::new($name(Either::A(h.to_async()))),
          Either::A(h) => Box::new($name(Either::S(h.to_sync()))),
        }
      }
    }
  };
}

macro_rules! rx_batch_methods {
  (yes) => {
    fn recv_batch(&mut self, max: usize, p: Plan) -> RecvOut {
      match &mut self.0 {
        Either::S(h) => RecvOut::many(Some(h.recv_batch(max))),
        Either::A(h) => RecvOut::many(drive(h.recv_batch(max), p)),
      }
    }
    fn try_recv_batch(&mut self, max: usize) -> RecvOut {
      match &mut self.0 {
        Either::S(h) => RecvOut::try_many(h.try_recv_batch(max)),
        Either::A(h) => RecvOut::try_many(h.try_recv_batch(max)),
      }
    }
    fn recv_batch_mut(&mut self, max: usize, p: Plan) -> RecvOut {
      let mut out: Vec<Tok> = Vec::new();
      match &mut self.0 {
        Either::S(h) => {
          let r = h.recv_batch_mut(&mut out, max);
          RecvOut::many_mut(&mut out, Some(r))
        }
        Either::A(h) => {
          let r = drive(h.recv_batch_mut(&mut out, max), p);
          RecvOut::many_mut(&mut out, r)
        }
      }
    }
    fn try_recv_batch_mut(&mut self, max: usize) -> RecvOut {
      let mut out: Vec<Tok> = Vec::new();
      match &mut self.0 {
        Either::S(h) => {
          let r = h.try_recv_batch_mut(&mut out, max);
          RecvOut::try_many_mut(&mut out, r)
        }
        Either::A(h) => {
          let r = h.try_recv_batch_mut(&mut out, max);
          RecvOut::try_many_mut(&mut out, r)
        }
      }
    }
  };
  (no) => {
    fn recv_batch(&mut self, _max: usize, _p: Plan) -> RecvOut {
      RecvOut { res: RRes::Unsupported, got: vec![] }
    }
    fn try_recv_batch(&mut self, _max: usize) -> RecvOut {
      RecvOut { res: RRes::Unsupported, got: vec![] }
    }
    fn recv_batch_mut(&mut self, _max: usize, _p: Plan) -> RecvOut {
      RecvOut { res: RRes::Unsupported, got: vec![] }
    }
    fn try_recv_batch_mut(&mut self, _max: usize) -> RecvOut {
      RecvOut { res: RRes::Unsupported, got: vec![] }
    }
  };
}

macro_rules! rx_stream_method {
  (yes) => {
    fn stream_next(&mut self, p: Plan) -> RecvOut {
      use futures_util::StreamExt;
      match &mut self.0 {
        Either::S(_) => RecvOut { res: RRes::Unsupported, got: vec![] },
        Either::A(h) => match drive(h.next(), p) {
          Some(Some(t)) => RecvOut { res: RRes::Got, got: vec![t.id()] },
          Some(None) => RecvOut { res: RRes::Disconnected, got: vec![] },
          None => RecvOut { res: RRes::Cancelled, got: vec![] },
        },
      }
    }
  };
  (no) => {
    fn stream_next(&mut self, _p: Plan) -> RecvOut {
      RecvOut { res: RRes::Unsupported, got: vec![] }
    }
  };
}

macro_rules! impl_rx {
  ($name:ident, $s:ty, $a:ty, batch=$batch:tt, stream=$stream:tt, intro=$intro:tt, clone=$clone:tt) => {
    pub struct $name(pub Either<$s, $a>);
    impl Rx for $name {
      fn is_async(&self) -> bool {
        matches!(self.0, Either::A(_))
      }
      fn recv(&mut self, p: Plan) -> RecvOut {
        match &mut self.0 {
          Either::S(h) => RecvOut::one(Some(h.recv())),
          Either::A(h) => RecvOut::one(drive(h.recv(), p)),
        }
      }
      fn try_recv(&mut self) -> RecvOut {
        match &mut self.0 {
          Either::S(h) => RecvOut::try_one(h.try_recv()),
          Either::A(h) => RecvOut::try_one(h.try_recv()),
        }
      }
      fn recv_timeout(&mut self, d: Duration) -> RecvOut {
        match &mut self.0 {
          Either::S(h) => RecvOut::timed(h.recv_timeout(d)),
          Either::A(_) => RecvOut { res: RRes::Unsupported, got: vec![] },
        }
      }
      rx_batch_methods!($batch);
      rx_stream_method!($stream);
      fn close(&mut self) -> bool {
        match &mut self.0 {
          Either::S(h) => h.close().is_ok(),
          Either::A(h) => h.close().is_ok(),
        }
      }
      fn is_closed(&self) -> bool {
        match &self.0 {
          Either::S(h) => h.is_closed(),
          Either::A(h) => h.is_closed(),
        }
      }
      intro_methods!($intro);
      clone_method!($clone, Rx, $name);
      fn convert(self: Box<Self>) -> Box<dyn Rx> {
        match self.0 {
          Either::S(h) => Box::new($name(Either::A(h.to_async()))),
          Either::A(h) => Box::new($name(Either::S(h.to_sync()))),
        }
      }
    }
  };
}

use fibre::{mpmc, mpsc, spsc};

impl_tx!(SpscBTx, spsc::BoundedSyncSender<Tok>, spsc::BoundedAsyncSender<Tok>, batch=yes, intro=bounded, clone=no);
impl_rx!(SpscBRx, spsc::BoundedSyncReceiver<Tok>, spsc::BoundedAsyncReceiver<Tok>, batch=yes, stream=yes, intro=bounded, clone=no);
impl_tx!(SpscRTx, spsc::RendezvousSyncSender<Tok>, spsc::RendezvousAsyncSender<Tok>, batch=no, intro=rendezvous, clone=no);
impl_rx!(SpscRRx, spsc::RendezvousSyncReceiver<Tok>, spsc::RendezvousAsyncReceiver<Tok>, batch=no, stream=no, intro=rendezvous, clone=no);

impl_tx!(MpscBTx, mpsc::BoundedSyncSender<Tok>, mpsc::BoundedAsyncSender<Tok>, batch=yes, intro=bounded, clone=yes);
impl_rx!(MpscBRx, mpsc::BoundedSyncReceiver<Tok>, mpsc::BoundedAsyncReceiver<Tok>, batch=yes, stream=yes, intro=bounded, clone=no);
impl_tx!(MpscUTx, mpsc::UnboundedSyncSender<Tok>, mpsc::UnboundedAsyncSender<Tok>, batch=yes, intro=unbounded, clone=yes);
impl_rx!(MpscURx, mpsc::UnboundedSyncReceiver<Tok>, mpsc::UnboundedAsyncReceiver<Tok>, batch=yes, stream=yes, intro=unbounded, clone=no);
impl_tx!(MpscRTx, mpsc::RendezvousSyncSender<Tok>, mpsc::RendezvousAsyncSender<Tok>, batch=no, intro=rendezvous, clone=yes);
impl_rx!(MpscRRx, mpsc::RendezvousSyncReceiver<Tok>, mpsc::RendezvousAsyncReceiver<Tok>, batch=no, stream=no, intro=rendezvous, clone=no);

impl_tx!(MpmcBTx, mpmc::Sender<Tok>, mpmc::AsyncSender<Tok>, batch=yes, intro=bounded, clone=yes);
impl_rx!(MpmcBRx, mpmc::Receiver<Tok>, mpmc::AsyncReceiver<Tok>, batch=yes, stream=yes, intro=bounded, clone=yes);
impl_tx!(MpmcUTx, mpmc::UnboundedSyncSender<Tok>, mpmc::UnboundedAsyncSender<Tok>, batch=yes, intro=bounded, clone=yes);
impl_rx!(MpmcURx, mpmc::UnboundedSyncReceiver<Tok>, mpmc::UnboundedAsyncReceiver<Tok>, batch=yes, stream=yes, intro=bounded, clone=yes);
impl_tx!(MpmcRTx, mpmc::RendezvousSyncSender<Tok>, mpmc::RendezvousAsyncSender<Tok>, batch=no, intro=rendezvous, clone=yes);
impl_rx!(MpmcRRx, mpmc::RendezvousSyncReceiver<Tok>, mpmc::RendezvousAsyncReceiver<Tok>, batch=no, stream=no, intro=rendezvous, clone=yes);

#[derive(Clone, Copy, Debug, Serialize, Deserialize, PartialEq, Eq, Hash, PartialOrd, Ord)]
pub enum Flavour {
  SpscBounded,
  SpscRendezvous,
  MpscBounded,
  MpscUnbounded,
  MpscRendezvous,
  MpmcBounded,
  MpmcUnbounded,
  MpmcRendezvous,
  Oneshot,
}

impl Flavour {
  pub const ALL: [Flavour; 9] = [
    Flavour::SpscBounded,
    Flavour::SpscRendezvous,
    Flavour::MpscBounded,
    Flavour::MpscUnbounded,
    Flavour::MpscRendezvous,
    Flavour::MpmcBounded,
    Flavour::MpmcUnbounded,
    Flavour::MpmcRendezvous,
    Flavour::Oneshot,
  ];
  pub fn name(self) -> &'static str {
    match self {
      Flavour::SpscBounded => "spsc_bounded",
      Flavour::SpscRendezvous => "spsc_rendezvous",
      Flavour::MpscBounded => "mpsc_bounded",
      Flavour::MpscUnbounded => "mpsc_unbounded",
      Flavour::MpscRendezvous => "mpsc_rendezvous",
      Flavour::MpmcBounded => "mpmc_bounded",
      Flavour::MpmcUnbounded => "mpmc_unbounded",
      Flavour::MpmcRendezvous => "mpmc_rendezvous",
      Flavour::Oneshot => "oneshot",
    }
  }
  pub fn multi_producer(self) -> bool {
    !matches!(self, Flavour::SpscBounded | Flavour::SpscRendezvous)
  }
  pub fn multi_consumer(self) -> bool {
    matches!(self, Flavour::MpmcBounded | Flavour::MpmcUnbounded | Flavour::MpmcRendezvous)
  }
  pub fn has_batch(self) -> bool {
    !self.is_rendezvous() && self != Flavour::Oneshot
  }
  pub fn has_stream(self) -> bool {
    !self.is_rendezvous() && self != Flavour::Oneshot
  }
  /// sync/async forms of the handles exist and convert into each other
  pub fn has_conversions(self) -> bool {
    self != Flavour::Oneshot
  }
  pub fn has_timed_recv(self) -> bool {
    self != Flavour::Oneshot
  }
  pub fn is_rendezvous(self) -> bool {
    matches!(self, Flavour::SpscRendezvous | Flavour::MpscRendezvous | Flavour::MpmcRendezvous)
  }
  pub fn is_unbounded(self) -> bool {
    matches!(self, Flavour::MpscUnbounded | Flavour::MpmcUnbounded)
  }
  /// the bound the channel promises (None = unbounded)
  pub fn bound(self, cap: usize) -> Option<usize> {
    if self.is_unbounded() {
      None
    } else if self.is_rendezvous() {
      Some(0)
    } else if self == Flavour::Oneshot {
      Some(1)
    } else {
      Some(cap)
    }
  }
}

/// Create a channel of the flavour; `async_tx` / `async_rx` choose the constructor and the
/// initial form of each side (mixed forms are reached through `to_sync` / `to_async`).
pub fn make(fl: Flavour, cap: usize, async_ctor: bool) -> (Box<dyn Tx>, Box<dyn Rx>) {
  macro_rules! mk {
    ($txn:ident, $rxn:ident, $sync:expr, $asyn:expr) => {{
      if async_ctor {
        let (t, r) = $asyn;
        (Box::new($txn(Either::A(t))) as Box<dyn Tx>, Box::new($rxn(Either::A(r))) as Box<dyn Rx>)
      } else {
        let (t, r) = $sync;
        (Box::new($txn(Either::S(t))) as Box<dyn Tx>, Box::new($rxn(Either::S(r))) as Box<dyn Rx>)
      }
    }};
  }
  match fl {
    Flavour::SpscBounded => mk!(SpscBTx, SpscBRx, spsc::bounded_sync::<Tok>(cap), spsc::bounded_async::<Tok>(cap)),
    Flavour::SpscRendezvous => mk!(SpscRTx, SpscRRx, spsc::rendezvous::rendezvous::<Tok>(), spsc::rendezvous::rendezvous_async::<Tok>()),
    Flavour::MpscBounded => mk!(MpscBTx, MpscBRx, mpsc::bounded::<Tok>(cap), mpsc::bounded_async::<Tok>(cap)),
    Flavour::MpscUnbounded => mk!(MpscUTx, MpscURx, mpsc::unbounded::<Tok>(), mpsc::unbounded_async::<Tok>()),
    Flavour::MpscRendezvous => mk!(MpscRTx, MpscRRx, mpsc::rendezvous::rendezvous::<Tok>(), mpsc::rendezvous::rendezvous_async::<Tok>()),
    Flavour::MpmcBounded => mk!(MpmcBTx, MpmcBRx, mpmc::bounded::<Tok>(cap), mpmc::bounded_async::<Tok>(cap)),
    Flavour::MpmcUnbounded => mk!(MpmcUTx, MpmcURx, mpmc::unbounded::<Tok>(), mpmc::unbounded_async::<Tok>()),
    Flavour::MpmcRendezvous => mk!(MpmcRTx, MpmcRRx, mpmc::rendezvous::rendezvous::<Tok>(), mpmc::rendezvous::rendezvous_async::<Tok>()),
    Flavour::Oneshot => {
      let (t, r) = fibre::oneshot::oneshot::<Tok>();
      (Box::new(OneTx(Some(t))) as Box<dyn Tx>, Box::new(OneRx(r)) as Box<dyn Rx>)
    }
  }
}

// ------------------------------------------------------------------------------------------
// oneshot: `send(self)` consumes the handle, `recv()` is a future, everything else is absent.

pub struct OneTx(pub Option<fibre::oneshot::Sender<Tok>>);

impl Tx for OneTx {
  fn is_async(&self) -> bool {
    true
  }
  fn send(&mut self, t: Tok, _p: Plan) -> SendOut {
    self.try_send(t)
  }
  fn try_send(&mut self, t: Tok) -> SendOut {
    match self.0.take() {
      Some(h) => SendOut::from_try::<()>(h.send(t)),
      None => SendOut::unsupported(vec![t]),
    }
  }
  fn send_batch(&mut self, v: Vec<Tok>, _p: Plan) -> SendOut {
    SendOut::unsupported(v)
  }
  fn try_send_batch(&mut self, v: Vec<Tok>) -> SendOut {
    SendOut::unsupported(v)
  }
  fn send_batch_mut(&mut self, v: Vec<Tok>, _p: Plan) -> SendOut {
    SendOut::unsupported(v)
  }
  fn try_send_batch_mut(&mut self, v: Vec<Tok>) -> SendOut {
    SendOut::unsupported(v)
  }
  fn close(&mut self) -> bool {
    match &self.0 {
      Some(h) => h.close().is_ok(),
      None => false,
    }
  }
  fn is_closed(&self) -> bool {
    self.0.as_ref().map(|h| h.is_closed()).unwrap_or(true)
  }
  fn len(&self) -> Option<usize> {
    None
  }
  fn capacity(&self) -> Option<usize> {
    None
  }
  fn is_full(&self) -> Option<bool> {
    None
  }
  fn is_empty(&self) -> Option<bool> {
    None
  }
  fn try_clone(&self) -> Option<Box<dyn Tx>> {
    self.0.as_ref().map(|h| Box::new(OneTx(Some(h.clone()))) as Box<dyn Tx>)
  }
  fn convert(self: Box<Self>) -> Box<dyn Tx> {
    self
  }
}

pub struct OneRx(pub fibre::oneshot::Receiver<Tok>);

impl Rx for OneRx {
  fn is_async(&self) -> bool {
    true
  }
  fn recv(&mut self, p: Plan) -> RecvOut {
    RecvOut::one(drive(self.0.recv(), p))
  }
  fn try_recv(&mut self) -> RecvOut {
    RecvOut::try_one(self.0.try_recv())
  }
  fn recv_timeout(&mut self, _d: Duration) -> RecvOut {
    RecvOut { res: RRes::Unsupported, got: vec![] }
  }
  fn recv_batch(&mut self, _max: usize, _p: Plan) -> RecvOut {
    RecvOut { res: RRes::Unsupported, got: vec![] }
  }
  fn try_recv_batch(&mut self, _max: usize) -> RecvOut {
    RecvOut { res: RRes::Unsupported, got: vec![] }
  }
  fn recv_batch_mut(&mut self, _max: usize, _p: Plan) -> RecvOut {
    RecvOut { res: RRes::Unsupported, got: vec![] }
  }
  fn try_recv_batch_mut(&mut self, _max: usize) -> RecvOut {
    RecvOut { res: RRes::Unsupported, got: vec![] }
  }
  fn stream_next(&mut self, _p: Plan) -> RecvOut {
    RecvOut { res: RRes::Unsupported, got: vec![] }
  }
  fn close(&mut self) -> bool {
    self.0.close().is_ok()
  }
  fn is_closed(&self) -> bool {
    self.0.is_closed()
  }
  fn len(&self) -> Option<usize> {
    None
  }
  fn capacity(&self) -> Option<usize> {
    None
  }
  fn is_full(&self) -> Option<bool> {
    None
  }
  fn is_empty(&self) -> Option<bool> {
    None
  }
  fn try_clone(&self) -> Option<Box<dyn Rx>> {
    None
  }
  fn convert(self: Box<Self>) -> Box<dyn Rx> {
    self
  }
}
