//! Known findings: genuine defects recorded (not repaired) in /verif/known_findings.json. The
//! file is read only; a check never adds to it at run time.

use super::batch::Violation;
use serde::Deserialize;
use std::collections::BTreeMap;

#[derive(Clone, Debug, Deserialize)]
pub struct Finding {
  pub id: String,
  pub property: String,
  pub class: String,
  /// facet -> `|`-separated alternatives; every listed facet must match
  #[serde(default)]
  pub facets: BTreeMap<String, String>,
  pub what: String,
  /// "known" (suppresses, prints KNOWN-FINDING) or "fixed" (suppresses nothing)
  pub status: String,
  #[serde(default)]
  pub commit: String,
}

#[derive(Clone, Debug, Default, Deserialize)]
pub struct Known {
  #[serde(default)]
  pub findings: Vec<Finding>,
}

impl Known {
  pub fn load(path: &str) -> Known {
    match std::fs::read_to_string(path) {
      Ok(s) => serde_json::from_str(&s).unwrap_or_else(|e| {
        println!("HARNESS-ERROR: cannot parse {path}: {e}");
        std::process::exit(2)
      }),
      Err(_) => Known::default(),
    }
  }

  pub fn find(&self, v: &Violation) -> Option<&Finding> {
    self.findings.iter().find(|f| {
      f.status == "known"
        && f.property == v.property
        && f.class == v.class
        && f.facets.iter().all(|(k, alts)| v.facets.get(k).map(|x| alts.split('|').any(|a| a == x)).unwrap_or(false))
    })
  }

  pub fn matches(&self, v: &Violation) -> bool {
    self.find(v).is_some()
  }
}
