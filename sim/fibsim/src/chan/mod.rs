pub mod adapt;
pub mod conc;
pub mod drive;
pub mod gen;
pub mod oracle;
pub mod spmc;
pub mod tok;
pub mod topic;
