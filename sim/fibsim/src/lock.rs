//! LOCK family (C10): 2–4 simulated threads over one `HybridMutex` / `HybridRwLock`, mixing
//! blocking, async (cancellable) and try acquisitions. The protected value is instrumented: a
//! non-atomic read – yield – write inside every exclusive section and occupancy counters around
//! every section.

use crate::chan::conc::{Knobs, ModeSer};
use crate::chan::drive::{drive, Plan};
use crate::core::batch::{hash_str, Evaluated, Family, Violation};
use crate::core::rng::Rng;
use crate::core::run::{FailKind, RunCfg, RunOut};
use crate::core::sched::Mode;
use fibre::sync::{HybridMutex, HybridRwLock};
use fibre_verif_rt::ctx::next_seq;
use serde::{Deserialize, Serialize};
use serde_json::{json, Value};
use std::cell::RefCell;
use std::collections::BTreeMap;
use std::sync::atomic::{AtomicU32, AtomicU64, Ordering};
use std::sync::Arc;

#[derive(Clone, Copy, Debug, Serialize, Deserialize, PartialEq, Eq, Hash, PartialOrd, Ord)]
pub enum LKind {
  Mutex,
  RwLock,
}

#[derive(Clone, Copy, Debug, Serialize, Deserialize, PartialEq, Eq, Hash, PartialOrd, Ord)]
pub enum Acq {
  /// mutex lock / rwlock write
  Excl,
  ExclAsync,
  ExclTry,
  /// rwlock read (on a mutex: same as Excl*)
  Shared,
  SharedAsync,
  SharedTry,
}

#[derive(Clone, Debug, Serialize, Deserialize, PartialEq)]
pub struct LOp {
  pub acq: Acq,
  /// scheduler yields inside the critical section
  pub hold: u8,
  pub plan: Plan,
}

#[derive(Clone, Debug, Serialize, Deserialize, PartialEq)]
pub struct LockSc {
  pub kind: LKind,
  pub actors: Vec<Vec<LOp>>,
  /// writer-starvation variant: actors 1.. loop `reader_loops` shared sections, actor 0 takes
  /// one exclusive section; the scheduler favours the readers once the writer is parked
  pub starve: Option<u32>,
  pub knobs: Knobs,
}

#[derive(Clone, Debug)]
pub struct LEv {
  pub actor: u8,
  pub acq: Acq,
  /// acquired / would-block (try) / cancelled
  pub got: u8,
  pub inv: u64,
  pub ret: u64,
}

struct Instr {
  readers: AtomicU32,
  writers: AtomicU32,
  excl_done: AtomicU64,
  /// exclusive sections started after the writer queued (starvation oracle)
  reads_after_writer_waiting: AtomicU64,
  writer_waiting: AtomicU32,
  writer_done: AtomicU32,
  reads_done: AtomicU64,
}

thread_local! {
  static EVS: RefCell<Vec<LEv>> = const { RefCell::new(Vec::new()) };
  static BAD: RefCell<Vec<String>> = const { RefCell::new(Vec::new()) };
  static CUR: RefCell<Option<Arc<LockSc>>> = const { RefCell::new(None) };
  static FINAL: RefCell<Option<(u64, u64, u64)>> = const { RefCell::new(None) };
}

fn bad(msg: String) {
  BAD.with(|b| b.borrow_mut().push(msg));
}

fn rec(actor: u8, acq: Acq, got: u8, inv: u64) {
  let ret = next_seq();
  EVS.with(|e| e.borrow_mut().push(LEv { actor, acq, got, inv, ret }));
}

fn excl_section(ins: &Instr, value: &mut u64, hold: u8, who: u8) {
  let r = ins.readers.load(Ordering::SeqCst);
  let w = ins.writers.fetch_add(1, Ordering::SeqCst);
  if r != 0 || w != 0 {
    bad(format!("actor {who} holds the exclusive guard while {r} reader(s) and {w} writer(s) hold guards"));
  }
  // non-atomic read - yield - write: a second writer inside the section loses an increment
  let v = *value;
  for _ in 0..hold {
    shuttle::thread::yield_now();
  }
  *value = v + 1;
  ins.excl_done.fetch_add(1, Ordering::SeqCst);
  ins.writers.fetch_sub(1, Ordering::SeqCst);
}

fn shared_section(ins: &Instr, hold: u8, who: u8) {
  let w = ins.writers.load(Ordering::SeqCst);
  if w != 0 {
    bad(format!("actor {who} holds a read guard while {w} writer(s) hold the write guard"));
  }
  ins.readers.fetch_add(1, Ordering::SeqCst);
  for _ in 0..hold {
    shuttle::thread::yield_now();
    let w = ins.writers.load(Ordering::SeqCst);
    if w != 0 {
      bad(format!("a writer entered while actor {who} holds a read guard"));
    }
  }
  ins.readers.fetch_sub(1, Ordering::SeqCst);
}

enum AnyLock {
  M(HybridMutex<u64>),
  R(HybridRwLock<u64>),
}

fn run_actor(idx: usize, ops: &[LOp], lock: &AnyLock, ins: &Instr) {
  let who = idx as u8;
  for op in ops {
    let inv = next_seq();
    match lock {
      AnyLock::M(m) => match op.acq {
        Acq::Excl | Acq::Shared => {
          let mut g = m.lock();
          excl_section(ins, &mut g, op.hold, who);
          drop(g);
          rec(who, op.acq, 1, inv);
        }
        Acq::ExclAsync | Acq::SharedAsync => match drive(m.lock_async(), op.plan) {
          Some(mut g) => {
            excl_section(ins, &mut g, op.hold, who);
            drop(g);
            rec(who, op.acq, 1, inv);
          }
          None => rec(who, op.acq, 2, inv),
        },
        Acq::ExclTry | Acq::SharedTry => {
          let r = fibre_verif_rt::chan::thread::no_park_section(|| m.try_lock());
          match r {
            Some(mut g) => {
              excl_section(ins, &mut g, op.hold, who);
              drop(g);
              rec(who, op.acq, 1, inv);
            }
            None => rec(who, op.acq, 0, inv),
          }
        }
      },
      AnyLock::R(l) => match op.acq {
        Acq::Excl => {
          let mut g = l.write();
          excl_section(ins, &mut g, op.hold, who);
          drop(g);
          rec(who, op.acq, 1, inv);
        }
        Acq::ExclAsync => match drive(l.write_async(), op.plan) {
          Some(mut g) => {
            excl_section(ins, &mut g, op.hold, who);
            drop(g);
            rec(who, op.acq, 1, inv);
          }
          None => rec(who, op.acq, 2, inv),
        },
        Acq::ExclTry => {
          let r = fibre_verif_rt::chan::thread::no_park_section(|| l.try_write());
          match r {
            Some(mut g) => {
              excl_section(ins, &mut g, op.hold, who);
              drop(g);
              rec(who, op.acq, 1, inv);
            }
            None => rec(who, op.acq, 0, inv),
          }
        }
        Acq::Shared => {
          let g = l.read();
          shared_section(ins, op.hold, who);
          drop(g);
          rec(who, op.acq, 1, inv);
        }
        Acq::SharedAsync => match drive(l.read_async(), op.plan) {
          Some(g) => {
            shared_section(ins, op.hold, who);
            drop(g);
            rec(who, op.acq, 1, inv);
          }
          None => rec(who, op.acq, 2, inv),
        },
        Acq::SharedTry => {
          let r = fibre_verif_rt::chan::thread::no_park_section(|| l.try_read());
          match r {
            Some(g) => {
              shared_section(ins, op.hold, who);
              drop(g);
              rec(who, op.acq, 1, inv);
            }
            None => rec(who, op.acq, 0, inv),
          }
        }
      },
    }
  }
}

fn lock_main() {
  let sc: Arc<LockSc> = CUR.with(|c| c.borrow().clone()).expect("no current scenario");
  let lock = Arc::new(match sc.kind {
    LKind::Mutex => AnyLock::M(HybridMutex::new(0)),
    LKind::RwLock => AnyLock::R(HybridRwLock::new(0)),
  });
  let ins = Arc::new(Instr {
    readers: AtomicU32::new(0),
    writers: AtomicU32::new(0),
    excl_done: AtomicU64::new(0),
    reads_after_writer_waiting: AtomicU64::new(0),
    writer_waiting: AtomicU32::new(0),
    writer_done: AtomicU32::new(0),
    reads_done: AtomicU64::new(0),
  });
  let mut joins = vec![];
  if let Some(loops) = sc.starve {
    // actor 0: the writer. It first lets the readers get going, then queues.
    let AnyLock::R(_) = &*lock else { unreachable!("starvation scenario is for the rwlock") };
    let nreaders = sc.actors.len().saturating_sub(1).max(1);
    for r in 0..nreaders {
      let lock = lock.clone();
      let ins = ins.clone();
      joins.push(shuttle::thread::spawn(move || {
        let AnyLock::R(l) = &*lock else { unreachable!() };
        for _ in 0..loops {
          if ins.writer_done.load(Ordering::SeqCst) == 1 {
            break;
          }
          let started_after = fibre_verif_rt::ctx::probe_count("rwlock_writer_queued_and_parking") > 0;
          let g = l.read();
          shared_section(&ins, 1, (r + 1) as u8);
          drop(g);
          ins.reads_done.fetch_add(1, Ordering::SeqCst);
          if started_after && ins.writer_done.load(Ordering::SeqCst) == 0 {
            ins.reads_after_writer_waiting.fetch_add(1, Ordering::SeqCst);
          }
        }
      }));
    }
    {
      let lock = lock.clone();
      let ins = ins.clone();
      joins.push(shuttle::thread::spawn(move || {
        let AnyLock::R(l) = &*lock else { unreachable!() };
        // let the reader stream get going first
        let mut spins = 0;
        while ins.reads_done.load(Ordering::SeqCst) < 4 && spins < 2000 {
          shuttle::thread::yield_now();
          spins += 1;
        }
        // Once the writer has queued (library probe `rwlock_writer_queued_and_parking`, hook H10) the
        // scheduler runs a reader whenever one is runnable. Readers started before that do not
        // count: the writer must first be given the CPU to queue at all.
        let inv = next_seq();
        let mut g = l.write();
        ins.writer_done.store(1, Ordering::SeqCst);
        excl_section(&ins, &mut g, 0, 0);
        drop(g);
        rec(0, Acq::Excl, 1, inv);
      }));
    }
  } else {
    for (i, ops) in sc.actors.iter().enumerate() {
      let lock = lock.clone();
      let ins = ins.clone();
      let ops = ops.clone();
      joins.push(shuttle::thread::spawn(move || run_actor(i, &ops, &lock, &ins)));
    }
  }
  for j in joins {
    j.join().unwrap();
  }
  let lock = Arc::try_unwrap(lock).ok().expect("lock still shared");
  let value = match lock {
    AnyLock::M(mut m) => *m.get_mut(),
    AnyLock::R(l) => *l.read(),
  };
  FINAL.with(|f| *f.borrow_mut() = Some((value, ins.excl_done.load(Ordering::SeqCst), ins.reads_after_writer_waiting.load(Ordering::SeqCst))));
}

pub struct LockFamily {
  pub faults: bool,
  pub cancel: bool,
  /// generate the writer-starvation variant only
  pub starve: bool,
}

impl Family for LockFamily {
  type Sc = LockSc;

  fn name(&self) -> &'static str {
    "LOCK"
  }

  fn rule(&self) -> &'static str {
    "one case = one generated program over one HybridMutex or HybridRwLock (2-4 threads x <=5 acquisitions: blocking / async with cancellation plans / try; shared or exclusive; 0-3 yields inside the critical section) under one seeded schedule and fault plan; non-trivial = >=3 context switches and >=2 completed critical sections; distinct = distinct scheduler decision-trace hash"
  }

  fn needs_fresh_thread(&self) -> bool {
    false
  }

  fn max_steps(&self) -> usize {
    if self.starve {
      400_000
    } else {
      60_000
    }
  }

  fn generate(&self, rng: &mut Rng) -> LockSc {
    if self.starve {
      let nreaders = rng.range(2, 3) as usize;
      let mut knobs = Knobs::gen(rng, false, 400);
      knobs.mode = ModeSer::Uniform;
      return LockSc { kind: LKind::RwLock, actors: vec![vec![]; nreaders + 1], starve: Some(rng.range(2000, 5000) as u32), knobs };
    }
    let kind = if rng.chance(1, 3) { LKind::Mutex } else { LKind::RwLock };
    let n = rng.range(2, 4);
    let mut actors = vec![];
    for _ in 0..n {
      let mut ops = vec![];
      for _ in 0..rng.range(1, 5) {
        let acq = match kind {
          LKind::Mutex => *rng.pick(&[Acq::Excl, Acq::Excl, Acq::ExclAsync, Acq::ExclAsync, Acq::ExclTry]),
          LKind::RwLock => *rng.pick(&[Acq::Excl, Acq::ExclAsync, Acq::ExclTry, Acq::Shared, Acq::Shared, Acq::SharedAsync, Acq::SharedAsync, Acq::SharedTry]),
        };
        let mut plan = Plan::NONE;
        if matches!(acq, Acq::ExclAsync | Acq::SharedAsync) {
          if self.cancel && rng.chance(1, 4) {
            plan.cancel_after = rng.range(1, 2) as u8;
            plan.linger = rng.below(3) as u8;
          }
          plan.swap_waker = rng.chance(1, 6);
          plan.spurious_poll = rng.chance(1, 8);
        }
        ops.push(LOp { acq, hold: rng.below(4) as u8, plan });
      }
      actors.push(ops);
    }
    let total: u32 = actors.iter().map(|a| a.len() as u32).sum();
    LockSc { kind, actors, starve: None, knobs: Knobs::gen(rng, self.faults, 40 * (total + 2)) }
  }

  fn begin(&self, sc: &LockSc, record_trace: bool) -> RunCfg {
    EVS.with(|e| e.borrow_mut().clear());
    BAD.with(|e| e.borrow_mut().clear());
    FINAL.with(|f| *f.borrow_mut() = None);
    CUR.with(|c| *c.borrow_mut() = Some(Arc::new(sc.clone())));
    let mut cfg = sc.knobs.run_cfg(record_trace);
    if sc.starve.is_some() {
      // tasks: 0 = main, 1..=nreaders = readers, last = writer; favour the readers
      let nreaders = sc.actors.len().saturating_sub(1).max(1);
      let mut mask = 0u64;
      for t in 1..=nreaders {
        mask |= 1 << t;
      }
      cfg.mode = Mode::Starve { favoured: mask };
    }
    cfg
  }

  fn body(&self) -> Arc<dyn Fn() + Send + Sync> {
    Arc::new(lock_main)
  }

  fn finish(&self, sc: &LockSc, out: RunOut) -> Evaluated {
    CUR.with(|c| *c.borrow_mut() = None);
    let evs = EVS.with(|e| std::mem::take(&mut *e.borrow_mut()));
    let bads = BAD.with(|e| std::mem::take(&mut *e.borrow_mut()));
    let fin = FINAL.with(|f| f.borrow_mut().take());
    if std::env::var("VERIF_DUMP").is_ok() {
      for e in &evs {
        println!("  ev {:?}", e);
      }
      println!("  bad={bads:?} final={fin:?} failure={:?}", out.failure);
    }
    let kind = if sc.kind == LKind::Mutex { "hybrid_mutex" } else { "hybrid_rwlock" };
    let mk = |class: &str, extra: &[(&str, String)], detail: String| {
      let mut facets = BTreeMap::new();
      facets.insert("lock".to_string(), kind.to_string());
      for (k, v) in extra {
        facets.insert(k.to_string(), v.clone());
      }
      Violation { property: "C10".into(), class: class.into(), facets, detail }
    };
    let mut vs = vec![];
    let any_cancel = sc.actors.iter().any(|a| a.iter().any(|o| o.plan.cancel_after > 0));
    if let Some(f) = &out.failure {
      let class = match f.kind {
        FailKind::Deadlock => "deadlock",
        FailKind::StepBound => {
          if sc.starve.is_some() {
            "writer_starved"
          } else {
            "step_bound"
          }
        }
        FailKind::Panic => "panic",
      };
      let mut extra = vec![("cancel", any_cancel.to_string())];
      if f.kind == FailKind::Panic {
        extra.push(("where", f.location.clone()));
      }
      vs.push(mk(class, &extra, format!("{} at {}", f.message, f.location)));
    } else {
      if !bads.is_empty() {
        vs.push(mk("mutual_exclusion_violated", &[("cancel", any_cancel.to_string())], bads[0].clone()));
      }
      if let Some((value, excl_done, reads_after)) = fin {
        if value != excl_done {
          vs.push(mk("lost_update_in_exclusive_section", &[], format!("{excl_done} exclusive sections completed but the protected counter is {value}")));
        }
        if sc.starve.is_some() {
          let nreaders = sc.actors.len().saturating_sub(1).max(1) as u64;
          if reads_after > 100 * nreaders {
            vs.push(mk("writer_starved", &[], format!("{reads_after} read sections started and completed after the writer had queued and before it acquired (bound {})", 100 * nreaders)));
          }
        }
      }
      if out.no_park_violations > 0 {
        vs.push(mk("try_lock_parked", &[], format!("{} park(s) inside try_lock/try_read/try_write", out.no_park_violations)));
      }
    }
    let mut states: Vec<u64> = evs.iter().map(|e| hash_str(&format!("{kind}|{:?}|{}", e.acq, e.got))).collect();
    states.sort();
    states.dedup();
    let done = evs.iter().filter(|e| e.got == 1).count();
    // starvation variant: non-trivial iff the writer really queued and parked behind readers
    let nontrivial = if sc.starve.is_some() { out.probes.get("rwlock_writer_queued_and_parking").copied().unwrap_or(0) > 0 } else { out.stats.switches >= 3 && done >= 2 };
    Evaluated { out, violations: vs, states, nontrivial }
  }

  fn shrink(&self, sc: &LockSc) -> Vec<LockSc> {
    let mut out = vec![];
    if sc.starve.is_some() {
      return out;
    }
    if sc.actors.len() > 2 {
      for i in 0..sc.actors.len() {
        let mut c = sc.clone();
        c.actors.remove(i);
        out.push(c);
      }
    }
    for (ai, a) in sc.actors.iter().enumerate() {
      if a.len() > 1 {
        for oi in 0..a.len() {
          let mut c = sc.clone();
          c.actors[ai].remove(oi);
          out.push(c);
        }
      }
      for (oi, op) in a.iter().enumerate() {
        if op.plan != Plan::NONE {
          let mut c = sc.clone();
          c.actors[ai][oi].plan = Plan::NONE;
          out.push(c);
        }
        if op.hold > 0 {
          let mut c = sc.clone();
          c.actors[ai][oi].hold = 0;
          out.push(c);
        }
      }
    }
    if sc.knobs.spurious_rate > 0 || sc.knobs.cas_weak > 0 || sc.knobs.park_return > 0 {
      let mut c = sc.clone();
      c.knobs.spurious_rate = 0;
      c.knobs.cas_weak = 0;
      c.knobs.park_return = 0;
      out.push(c);
    }
    if sc.knobs.mode != ModeSer::Uniform {
      let mut c = sc.clone();
      c.knobs.mode = ModeSer::Uniform;
      out.push(c);
    }
    out
  }

  fn reseed(&self, sc: &LockSc, seed: u64) -> LockSc {
    let mut c = sc.clone();
    c.knobs.seed = seed;
    c
  }

  fn components(&self) -> Value {
    json!({
      "real": ["fibre::sync::{HybridMutex, HybridRwLock, wait_queue} (every CAS, park and wake is a scheduling point)"],
      "stub": ["atomics / park / yield -> shuttle-backed facade", "executor -> shuttle block_on"],
      "unmodelled": ["weak memory orderings"]
    })
  }
}
