//! The slice of `parking_lot_core` that dashmap's lock uses, on the simulation runtime: a table
//! address -> queue of parked simulated threads. The real crate holds a bucket lock across
//! "validate, then enqueue" and across the dequeue in `unpark_*`; here the same atomicity comes
//! from the simulation itself: a simulated atomic operation yields to the scheduler *before* it
//! executes, so nothing can run between the read inside `validate` and the enqueue that follows,
//! and the dequeue contains no scheduling point at all. (No blocking primitive is used, so the
//! functions are also safe to call from destructors while a failed run is being torn down.)

use fibre_verif_rt::chan::thread::{self, Thread};
use std::cell::RefCell;
use std::collections::BTreeMap;
use std::sync::atomic::{AtomicBool, Ordering};
use std::sync::Arc;

pub struct ParkToken(pub usize);
pub struct UnparkToken(pub usize);

#[derive(Default)]
pub struct UnparkResult {
  pub unparked_threads: usize,
  pub have_more_threads: bool,
  pub be_fair: bool,
}

pub enum ParkResult {
  Unparked(UnparkToken),
  Invalid,
  TimedOut,
}

struct Waiter {
  thread: Thread,
  woken: Arc<AtomicBool>,
}

struct Table {
  epoch: u64,
  queues: BTreeMap<usize, Vec<Waiter>>,
}

thread_local! {
  static TABLE: RefCell<Option<Table>> = const { RefCell::new(None) };
}

fn with_table<R>(f: impl FnOnce(&mut Table) -> R) -> R {
  TABLE.with(|t| {
    let mut t = t.borrow_mut();
    let epoch = fibre_verif_rt::ctx::run_epoch();
    if !matches!(&*t, Some(x) if x.epoch == epoch) {
      *t = Some(Table { epoch, queues: BTreeMap::new() });
    }
    f(t.as_mut().unwrap())
  })
}

/// # Safety
/// Same contract as `parking_lot_core::park` (callbacks must not panic or park).
pub unsafe fn park(
  key: usize,
  validate: impl FnOnce() -> bool,
  before_sleep: impl FnOnce(),
  _timed_out: impl FnOnce(usize, bool),
  _park_token: ParkToken,
  _timeout: Option<std::time::Instant>,
) -> ParkResult {
  let woken = Arc::new(AtomicBool::new(false));
  let me = thread::current();
  if !validate() {
    return ParkResult::Invalid;
  }
  // (no scheduling point since the read in `validate`)
  with_table(|t| t.queues.entry(key).or_default().push(Waiter { thread: me, woken: woken.clone() }));
  before_sleep();
  while !woken.load(Ordering::SeqCst) {
    thread::park();
  }
  ParkResult::Unparked(UnparkToken(0))
}

/// # Safety
/// Same contract as `parking_lot_core::unpark_one`.
pub unsafe fn unpark_one(key: usize, callback: impl FnOnce(UnparkResult) -> UnparkToken) -> UnparkResult {
  let (w, more) = with_table(|t| {
    let q = t.queues.entry(key).or_default();
    if q.is_empty() {
      (None, false)
    } else {
      let w = q.remove(0);
      (Some(w), !q.is_empty())
    }
  });
  let res = UnparkResult { unparked_threads: w.is_some() as usize, have_more_threads: more, be_fair: false };
  let _ = callback(UnparkResult { unparked_threads: res.unparked_threads, have_more_threads: more, be_fair: false });
  if let Some(w) = w {
    w.woken.store(true, Ordering::SeqCst);
    w.thread.unpark();
  }
  res
}

/// # Safety
/// Same contract as `parking_lot_core::unpark_all`.
pub unsafe fn unpark_all(key: usize, _token: UnparkToken) -> usize {
  let ws: Vec<Waiter> = with_table(|t| t.queues.remove(&key).unwrap_or_default());
  let n = ws.len();
  for w in ws {
    w.woken.store(true, Ordering::SeqCst);
    w.thread.unpark();
  }
  n
}

/// `SpinWait` collapsed to a couple of scheduler yields (as the loom backend collapses spin
/// budgets), so park paths are reached quickly.
#[derive(Default)]
pub struct SpinWait {
  n: u32,
}

impl SpinWait {
  pub fn new() -> Self {
    Self { n: 0 }
  }
  pub fn spin(&mut self) -> bool {
    if self.n >= 2 {
      return false;
    }
    self.n += 1;
    thread::yield_now();
    true
  }
  pub fn spin_no_yield(&mut self) {
    self.n += 1;
    thread::yield_now();
  }
}
