//! fibsim — deterministic simulation with fault injection for excsn/fibre.
//!
//!   fibsim check <Cxx> --quick|--thorough [--seed N] [--jobs N] [--scale F]
//!   fibsim replay <file>
//!   fibsim selftest determinism [--runs N]

mod cache;
mod chan;
mod core;
mod ioc;
mod lock;
mod logpipe;
mod registry;
mod rollsim;

use crate::core::batch::Tier;
use crate::core::check::Opts;

/// Entropy seam: std's `RandomState`, `getrandom` and `ahash` all obtain their keys through this
/// libc entry point. Serving fixed bytes pins every hash-iteration order to the run alone.
#[no_mangle]
pub extern "C" fn getrandom(buf: *mut u8, len: usize, _flags: u32) -> isize {
  unsafe {
    for i in 0..len {
      *buf.add(i) = 0x5a ^ (i as u8).wrapping_mul(31);
    }
  }
  len as isize
}

fn usage() -> ! {
  println!("usage: fibsim check <Cxx> --quick|--thorough [--seed N] [--jobs N] | fibsim replay <file> | fibsim selftest determinism");
  std::process::exit(2)
}

/// Runs this very command line in a child process and relays its output. If the child is killed
/// by a signal (abort, segfault) the supervisor reports the violation itself: the candidate the
/// child announced last, or - when it died during the scan - the run a single-worker re-scan
/// dies in.
fn supervise(args: &[String]) -> i32 {
  use std::io::{BufRead, BufReader};
  let exe = std::env::current_exe().expect("current_exe");
  let run = |extra_env: &[(&str, &str)], echo: bool| -> (Option<i32>, Option<String>, Option<String>, bool) {
    let mut cmd = std::process::Command::new(&exe);
    cmd.args(&args[1..]).env("FIBSIM_CHILD", "1").stdout(std::process::Stdio::piped());
    for (k, v) in extra_env {
      cmd.env(k, v);
    }
    let mut child = match cmd.spawn() {
      Ok(c) => c,
      Err(e) => {
        println!("HARNESS-ERROR: cannot spawn child: {e}");
        return (Some(2), None, None, false);
      }
    };
    let mut candidate = None;
    let mut last_run = None;
    let mut saw_violation = false;
    if let Some(out) = child.stdout.take() {
      for line in BufReader::new(out).lines().map_while(Result::ok) {
        if let Some(rest) = line.strip_prefix("CANDIDATE ") {
          candidate = Some(rest.to_string());
          continue;
        }
        if let Some(rest) = line.strip_prefix("RUNNING ") {
          last_run = Some(rest.to_string());
          continue;
        }
        if line.starts_with("VIOLATION ") {
          saw_violation = true;
        }
        if echo {
          println!("{line}");
        }
      }
    }
    let code = child.wait().ok().and_then(|s| s.code());
    (code, candidate, last_run, saw_violation)
  };
  let (code, candidate, _, _) = run(&[], true);
  if let Some(c) = code {
    if c <= 2 {
      return c;
    }
  }
  let prop = args.get(2).cloned().unwrap_or_default();
  if args[1] == "replay" {
    // the scenario kills the process: that is the reproduction
    println!("VIOLATION property=? replay={}", args.get(2).cloned().unwrap_or_default());
    println!("  class=process_aborted detail: replaying the file killed the process (exit {:?}): the code under test panicked in a destructor while unwinding, or corrupted memory", code);
    return 1;
  }
  if let Some(c) = candidate {
    let path = c.split("replay=").nth(1).unwrap_or("").to_string();
    println!("VIOLATION property={prop} replay={path}");
    println!("  {c}");
    println!("  detail: the process died (exit {:?}) while this violation was being minimised / re-executed: the code under test panicked in a destructor while unwinding, or corrupted memory; the replay file holds the un-minimised scenario", code);
    return 1;
  }
  // died during the scan: find the run with one worker announcing every run
  println!("fibsim: the check process died during the scan (exit {:?}); re-scanning with one worker to find the run", code);
  let mut a2: Vec<String> = args.to_vec();
  a2.push("--jobs".into());
  a2.push("1".into());
  let exe2 = exe.clone();
  let mut cmd = std::process::Command::new(&exe2);
  cmd.args(&a2[1..]).env("FIBSIM_CHILD", "1").env("FIBSIM_ANNOUNCE_RUNS", "1").stdout(std::process::Stdio::piped());
  let mut last_run: Option<String> = None;
  let mut cand2: Option<String> = None;
  let mut code2 = None;
  if let Ok(mut child) = cmd.spawn() {
    if let Some(out) = child.stdout.take() {
      for line in BufReader::new(out).lines().map_while(Result::ok) {
        if let Some(rest) = line.strip_prefix("RUNNING ") {
          last_run = Some(rest.to_string());
        } else if let Some(rest) = line.strip_prefix("CANDIDATE ") {
          cand2 = Some(rest.to_string());
        }
      }
    }
    code2 = child.wait().ok().and_then(|s| s.code());
  }
  if let Some(c) = cand2 {
    let path = c.split("replay=").nth(1).unwrap_or("").to_string();
    println!("VIOLATION property={prop} replay={path}");
    println!("  {c}");
    return 1;
  }
  match (code2, last_run) {
    (None, Some(r)) | (Some(134), Some(r)) | (Some(139), Some(r)) => {
      let path = r.split("replay=").nth(1).unwrap_or("").to_string();
      println!("VIOLATION property={prop} replay={path}");
      println!("  class=process_aborted detail: executing this scenario kills the process ({r}): the code under test panicked in a destructor while unwinding, or corrupted memory");
      1
    }
    _ => {
      println!("HARNESS-ERROR: the check process died (exit {:?}) and the single-worker re-scan did not (exit {:?})", code, code2);
      2
    }
  }
}

fn main() {
  let args: Vec<String> = std::env::args().collect();
  if args.len() < 2 {
    usage();
  }
  let verif_dir = std::env::var("VERIF_DIR").unwrap_or_else(|_| "/verif".to_string());
  let env_seed = std::env::var("VERIF_SEED").ok().and_then(|s| s.parse::<u64>().ok());
  let quiet = std::env::var("VERIF_VERBOSE").is_err();
  if quiet {
    // shuttle prints a few lines to stderr on every failing run; the harness reports on stdout
    unsafe {
      let devnull = libc::open(b"/dev/null\0".as_ptr() as *const libc::c_char, libc::O_WRONLY);
      if devnull >= 0 {
        libc::dup2(devnull, 2);
      }
    }
  }
  // `check` and `replay` run in a child process under a supervisor: code under test that panics in
  // a destructor while unwinding (or corrupts memory) takes the whole process down, which must
  // still end in a VIOLATION line and exit code 1, not in a bare abort.
  if matches!(args[1].as_str(), "check" | "replay") && std::env::var("FIBSIM_CHILD").is_err() {
    std::process::exit(supervise(&args));
  }
  match args[1].as_str() {
"check" | "survey" => {
      if args.len() < 3 {
        usage();
      }
      let mut tier = match std::env::var("VERIF_TIER").ok().as_deref() {
        Some("thorough") => Tier::Thorough,
        _ => Tier::Quick,
      };
      let mut seed = env_seed.unwrap_or(20260923);
      let mut jobs = std::thread::available_parallelism().map(|n| n.get()).unwrap_or(8).min(16);
      let mut scale = 1.0f64;
      let mut i = 3;
      while i < args.len() {
        match args[i].as_str() {
          "--quick" => tier = Tier::Quick,
          "--thorough" => tier = Tier::Thorough,
          "--seed" => {
            i += 1;
            seed = args[i].parse().unwrap_or_else(|_| usage());
          }
          "--jobs" => {
            i += 1;
            jobs = args[i].parse().unwrap_or_else(|_| usage());
          }
          "--scale" => {
            i += 1;
            scale = args[i].parse().unwrap_or_else(|_| usage());
          }
          _ => usage(),
        }
        i += 1;
      }
      let survey = args[1] == "survey";
      let opts = Opts { property: args[2].clone(), tier, seed, jobs, verif_dir, scale, write_evidence: !survey, survey };
      let spec = match registry::check_spec(&args[2]) {
        Some(s) => s,
        None => {
          println!("HARNESS-ERROR: no check registered for {}", args[2]);
          std::process::exit(2)
        }
      };
      std::process::exit(core::check::run_check(spec, &opts));
    }
    "worker" => {
      // fibsim worker <property> <lane_index> <batch_seed> <runs> <r> <n> <tier> <survey>
      if args.len() < 10 {
        usage();
      }
      let spec = registry::check_spec(&args[2]).unwrap_or_else(|| usage());
      let li: usize = args[3].parse().unwrap_or_else(|_| usage());
      let lane = &spec.lanes[li];
      // One CPU per worker process: every run spawns a fresh OS thread, and letting those
      // threads wander over all CPUs turns each stack munmap into cross-CPU TLB shootdowns.
      unsafe {
        let r: usize = args[6].parse().unwrap_or(0);
        let ncpu = libc::sysconf(libc::_SC_NPROCESSORS_ONLN).max(1) as usize;
        let mut set: libc::cpu_set_t = std::mem::zeroed();
        libc::CPU_SET(r % ncpu, &mut set);
        libc::sched_setaffinity(0, std::mem::size_of::<libc::cpu_set_t>(), &set);
      }
      let cfg = core::batch::LaneCfg {
        lane: lane.name.clone(),
        property: args[2].clone(),
        batch_seed: args[4].parse().unwrap_or_else(|_| usage()),
        runs: args[5].parse().unwrap_or_else(|_| usage()),
        jobs: 1,
        stop_on_first: true,
        replay_dir: String::new(),
        shrink_budget: 0,
        survey: args[9] == "1",
        part: Some((args[6].parse().unwrap_or_else(|_| usage()), args[7].parse().unwrap_or_else(|_| usage()))),
        lane_index: li,
        tier_quick: args[8] == "quick",
        collect_hashes: false,
      };
      let known = core::known::Known::load(&format!("{}/known_findings.json", verif_dir));
      println!("{}", (lane.scan_json)(&cfg, &known));
      std::process::exit(0);
    }
    "replay" => {
      if args.len() < 3 {
        usage();
      }
      std::process::exit(registry::replay(&args[2]));
    }
    "selftest" => {
      std::process::exit(registry::selftest(&args[1..]));
    }
    _ => usage(),
  }
}
