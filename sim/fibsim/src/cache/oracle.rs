//! Oracles over a CACHE-CONC history (C11, C12 (resident-in-unbounded clause), C13, C14 (system
//! view through the policy proxy), C15, C16). Every rule is a necessary condition of its
//! property; see DESIGN.md §6.

use super::{CEv, CacheSc, COp, Hist, LoaderKind, PolCall, PolicyKind, Res};
use crate::core::batch::Violation;
use crate::core::run::{FailKind, RunOut};
use fibre_cache::EvictionReason;
use std::collections::{BTreeMap, BTreeSet};

fn viol(sc: &CacheSc, property: &str, class: &str, extra: &[(&str, String)], detail: String) -> Violation {
  let mut facets = BTreeMap::new();
  facets.insert("policy".to_string(), if sc.default_policy { "default".to_string() } else { format!("{:?}", sc.policy) });
  for (k, v) in extra {
    facets.insert(k.to_string(), v.clone());
  }
  Violation { property: property.into(), class: class.into(), facets, detail }
}

#[derive(Clone, Debug)]
struct Write {
  key: u8,
  id: u32,
  inv: u64,
  /// completion stamp (u64::MAX = unknown)
  ret: u64,
  cost: u64,
  is_load: bool,
  t_inv: u64,
  t_ret: u64,
  ttl_ns: Option<u64>,
}

#[derive(Clone, Debug)]
struct Removal {
  /// None = every key (clear)
  key: Option<u8>,
  inv: u64,
  ret: u64,
}

/// (key, id, ctr) triples an operation returned as reads
pub(crate) fn reads_of(e: &CEv) -> Vec<(u8, u32, u32)> {
  match (&e.op, &e.res) {
    (COp::Get { k }, Res::Val(id, c))
    | (COp::Fetch { k }, Res::Val(id, c))
    | (COp::Peek { k }, Res::Val(id, c))
    | (COp::Remove { k }, Res::Val(id, c))
    | (COp::EntryGet { k }, Res::Val(id, c))
    | (COp::FetchWith { k }, Res::Val(id, c))
    | (COp::EntryOrInsert { k, .. }, Res::Val(id, c)) | (COp::EntryOrInsertWith { k, .. }, Res::Val(id, c)) => vec![(*k, *id, *c)],
    (COp::MultiGet { .. }, Res::Many(v)) | (COp::MultiRemove { .. }, Res::Many(v)) | (COp::Iter { .. }, Res::Many(v)) | (COp::IterSnapshot, Res::Many(v)) => v.clone(),
    _ => vec![],
  }
}

pub fn evaluate(sc: &CacheSc, h: &Hist, out: &RunOut) -> Vec<Violation> {
  let mut vs = vec![];
  let has_loader_ops = sc.loader != LoaderKind::None && h.evs.iter().any(|e| matches!(e.op, COp::FetchWith { .. })) || sc.clients.iter().any(|c| c.ops.iter().any(|o| matches!(o, COp::FetchWith { .. })));
  if let Some(f) = &out.failure {
    let class = match f.kind {
      FailKind::Deadlock => "deadlock",
      FailKind::StepBound => "step_bound",
      FailKind::Panic => "panic",
    };
    let mut extra = vec![];
    if f.kind == FailKind::Panic {
      extra.push(("where", f.location.clone()));
    }
    let detail = format!("{} at {}", f.message, f.location);
    vs.push(viol(sc, "C11", class, &extra, detail.clone()));
    if has_loader_ops {
      vs.push(viol(sc, "C15", class, &extra, detail.clone()));
    }
    if sc.listener {
      vs.push(viol(sc, "C16", class, &extra, detail.clone()));
    }
    vs.push(viol(sc, "C13", class, &extra, detail));
    return vs;
  }

  // ---- writes, removals -------------------------------------------------------------------
  let mut writes: Vec<Write> = vec![];
  for e in &h.evs {
    for (k, id) in &e.wrote {
      let (cost, ttl) = match &e.op {
        COp::Insert { cost, .. } => (*cost, sc.ttl_ns),
        COp::InsertTtl { cost, ttl_ns, .. } => (*cost, Some(*ttl_ns)),
        COp::EntryOrInsert { cost, .. } | COp::EntryOrInsertWith { cost, .. } => (*cost, sc.ttl_ns),
        COp::MultiInsert { items } => (items.iter().find(|(kk, _)| kk == k).map(|x| x.1).unwrap_or(1), sc.ttl_ns),
        _ => (1, sc.ttl_ns),
      };
      writes.push(Write { key: *k, id: *id, inv: e.inv, ret: e.ret, cost, is_load: false, t_inv: e.now_ns_inv, t_ret: e.now_ns_ret, ttl_ns: ttl });
    }
  }
  for l in &h.loads {
    // the loaded value is resident before any caller of that load returns
    let ret = h.evs.iter().filter(|e| matches!(e.op, COp::FetchWith { .. }) && e.res == Res::Val(l.id, 0)).map(|e| e.ret).min().unwrap_or(u64::MAX);
    writes.push(Write { key: l.key, id: l.id, inv: l.begin, ret, cost: l.cost, is_load: true, t_inv: 0, t_ret: u64::MAX, ttl_ns: sc.ttl_ns });
  }
  let by_id: BTreeMap<u32, Write> = writes.iter().map(|w| (w.id, w.clone())).collect();
  let mut removals: Vec<Removal> = vec![];
  for e in &h.evs {
    match &e.op {
      COp::Remove { k } | COp::Invalidate { k } => removals.push(Removal { key: Some(*k), inv: e.inv, ret: e.ret }),
      COp::Clear => removals.push(Removal { key: None, inv: e.inv, ret: e.ret }),
      COp::MultiRemove { ks } => {
        for k in ks {
          removals.push(Removal { key: Some(*k), inv: e.inv, ret: e.ret });
        }
      }
      _ => {}
    }
  }

  // ---- C11: reads return only the latest live value of their own key ------------------------
  for e in &h.evs {
    for (k, id, ctr) in reads_of(e) {
      // a remove()/or_insert that returned the value it wrote itself is not a read
      if e.wrote.iter().any(|(_, wid)| *wid == id) {
        continue;
      }
      let Some(w) = by_id.get(&id) else {
        vs.push(viol(sc, "C11", "phantom_value", &[("op", op_name(&e.op))], format!("{:?} returned value id {id} that nobody wrote", e.op)));
        continue;
      };
      if w.key != k {
        vs.push(viol(sc, "C11", "value_of_another_key", &[("op", op_name(&e.op))], format!("{:?} returned value {id} for key {k}, but it was written under key {}", e.op, w.key)));
        continue;
      }
      if w.inv >= e.ret {
        vs.push(viol(sc, "C11", "value_from_the_future", &[("op", op_name(&e.op))], format!("{:?} [{}-{}] returned value {id} whose write was invoked at {}", e.op, e.inv, e.ret, w.inv)));
      }
      // definitely superseded: something that began after the write completed and completed
      // before this read began overwrote or removed it
      let over_w = writes.iter().find(|x| x.key == k && x.id != id && w.ret < x.inv && x.ret < e.inv);
      let over_r = removals.iter().find(|x| (x.key.is_none() || x.key == Some(k)) && w.ret < x.inv && x.ret < e.inv);
      if let Some(x) = over_w {
        vs.push(viol(
          sc,
          "C11",
          "overwritten_value_returned",
          &[("op", op_name(&e.op)), ("overwriter_is_load", x.is_load.to_string())],
          format!("{:?} [{}-{}] returned value {id} of key {k} (written [{}-{}]) although write {} [{}-{}] began after it and completed before the read began", e.op, e.inv, e.ret, w.inv, w.ret, x.id, x.inv, x.ret),
        ));
      } else if let Some(x) = over_r {
        vs.push(viol(
          sc,
          "C11",
          "removed_value_resurrected",
          &[("op", op_name(&e.op)), ("by_clear", x.key.is_none().to_string())],
          format!("{:?} [{}-{}] returned value {id} of key {k} (written [{}-{}]) although a remove/invalidate/clear [{}-{}] began after the write and completed before the read began", e.op, e.inv, e.ret, w.inv, w.ret, x.inv, x.ret),
        ));
        if w.is_load && matches!(e.op, COp::FetchWith { .. }) {
          // the same thing seen from C15: a miss after a completed invalidation must trigger a
          // new load, not be handed the result of a load that finished before the invalidation
          vs.push(viol(
            sc,
            "C15",
            "miss_after_invalidation_served_by_earlier_load",
            &[("by_clear", x.key.is_none().to_string())],
            format!("{:?} [{}-{}] began after the remove/invalidate/clear [{}-{}] had completed and was handed value {id} of load [{}-{}], which was resident before that removal began", e.op, e.inv, e.ret, x.inv, x.ret, w.inv, w.ret),
          ));
        }
      }
      // counter sanity: never more increments than successful computes invoked so far
      let computes = h.evs.iter().filter(|c| matches!(c.op, COp::Compute { k: kk } if kk == k) && c.res == Res::Bool(true) && c.inv < e.ret).count() as u32;
      if ctr > computes {
        vs.push(viol(sc, "C11", "counter_exceeds_computes", &[], format!("{:?} saw counter {ctr} on value {id} of key {k} but only {computes} successful compute() calls had started", e.op)));
      }
    }
  }

  // "never forgets": nothing can expire and nothing can be evicted. A literally unbounded cache,
  // or a capacity far above the working set under a policy without an admission filter
  // (W-TinyLFU may reject a newcomer long before the cache is full).
  let no_expiry = sc.ttl_ns.is_none() && sc.tti_ns.is_none() && !h.evs.iter().any(|e| matches!(e.op, COp::InsertTtl { .. }));
  let no_eviction = match sc.capacity {
    None => true,
    Some(c) => c >= 1000 && !sc.default_policy && sc.policy != PolicyKind::TinyLfu,
  };
  let never_forgets = no_expiry && no_eviction;
  if let (true, Some(fin)) = (never_forgets, &h.fin) {
    for k in 0..8u8 {
      let kw: Vec<&Write> = writes.iter().filter(|w| w.key == k).collect();
      let touched_by_removal = removals.iter().any(|r| r.key.is_none() || r.key == Some(k));
      if kw.len() == 1 && !touched_by_removal {
        let w = kw[0];
        let trues = h.evs.iter().filter(|c| matches!(c.op, COp::Compute { k: kk } if kk == k) && c.res == Res::Bool(true)).count() as u32;
        match fin.residents.iter().find(|r| r.0 == k) {
          Some((_, id, ctr, _)) => {
            if *id == w.id && *ctr != trues {
              vs.push(viol(sc, "C11", "compute_increment_lost", &[], format!("key {k}: {trues} compute() calls returned true on its only value {id}, final counter is {ctr}")));
            }
          }
          None if sc.capacity.is_some() => {}
          None => {
            vs.push(viol(sc, "C12", "unbounded_cache_lost_entry", &[], format!("key {k} was written once (value {}), never removed, the cache is unbounded without expiry, yet it is not resident at quiescence", w.id)));
          }
        }
      }
      // or_insert inserts at most once per vacancy
      let only_or_inserts = kw.iter().all(|w| h.evs.iter().any(|e| matches!(e.op, COp::EntryOrInsert { .. } | COp::EntryOrInsertWith { .. }) && e.wrote.iter().any(|x| x.1 == w.id)));
      if kw.len() > 1 && only_or_inserts && !touched_by_removal {
        vs.push(viol(sc, "C11", "or_insert_inserted_twice", &[], format!("key {k}: {} entry().or_insert calls each inserted their own value although the key was never removed", kw.len())));
      }
    }
  }

  accounting_rules(sc, h, !no_expiry, &mut vs);

  // ---- C15: loader single-flight ------------------------------------------------------------
  if sc.loader != LoaderKind::None {
    let stable = never_forgets;
    for k in 0..8u8 {
      let loads: Vec<_> = h.loads.iter().filter(|l| l.key == k).collect();
      if loads.is_empty() {
        continue;
      }
      if stable {
        // every miss needs a reason: the first one, or a removal/clear of the key, or ... nothing else
        let forget_ops = removals.iter().filter(|r| r.key.is_none() || r.key == Some(k)).count();
        if loads.len() > 1 + forget_ops {
          vs.push(viol(
            sc,
            "C15",
            "loader_ran_more_than_once_per_miss",
            &[("loader", format!("{:?}", sc.loader))],
            format!("key {k}: loader ran {} times ({:?}) with only {forget_ops} remove/invalidate/clear operations on it in an unbounded cache without expiry", loads.len(), loads.iter().map(|l| (l.id, l.begin, l.end)).collect::<Vec<_>>()),
          ));
        }
      }
    }
    // every fetch_with returns a value of its own key (C11 covers foreign values); a caller that
    // got a loaded value must have overlapped or followed that load
    for e in &h.evs {
      if let (COp::FetchWith { k }, Res::Val(id, _)) = (&e.op, &e.res) {
        if let Some(l) = h.loads.iter().find(|l| l.id == *id) {
          if l.begin > e.ret {
            vs.push(viol(sc, "C15", "value_from_later_load", &[], format!("fetch_with({k}) [{}-{}] returned value {id} whose load began at {}", e.inv, e.ret, l.begin)));
          }
        }
      }
    }
  }

  // ---- C16: listener truthfulness -----------------------------------------------------------
  if sc.listener {
    let mut seen: BTreeSet<u32> = BTreeSet::new();
    for n in &h.notes {
      let Some(w) = by_id.get(&n.id) else {
        vs.push(viol(sc, "C16", "notification_for_unknown_value", &[("reason", format!("{:?}", n.reason))], format!("listener got ({}, value {}, {:?}) but that value was never written", n.key, n.id, n.reason)));
        continue;
      };
      if w.key != n.key {
        vs.push(viol(sc, "C16", "notification_key_value_mismatch", &[], format!("listener got key {} with value {} that was written under key {}", n.key, n.id, w.key)));
      }
      if !seen.insert(n.id) {
        vs.push(viol(sc, "C16", "duplicate_notification", &[("reason", format!("{:?}", n.reason))], format!("value {} of key {} was notified more than once", n.id, n.key)));
      }
      match n.reason {
        EvictionReason::Invalidated => {
          let by_remove = h.evs.iter().any(|e| match (&e.op, &e.res) {
            (COp::Remove { .. }, Res::Val(id, _)) => *id == n.id,
            (COp::MultiRemove { .. }, Res::Many(v)) => v.iter().any(|x| x.1 == n.id),
            (COp::Invalidate { k }, Res::Bool(true)) => *k == n.key,
            _ => false,
          });
          if !by_remove {
            vs.push(viol(sc, "C16", "invalidated_without_remove", &[], format!("value {} of key {} was notified as Invalidated but no remove/invalidate returned it", n.id, n.key)));
          }
        }
        EvictionReason::Capacity => {
          if sc.capacity.is_none() {
            vs.push(viol(sc, "C16", "capacity_eviction_in_unbounded_cache", &[], format!("value {} of key {} was notified as evicted for Capacity in an unbounded cache", n.id, n.key)));
          }
        }
        EvictionReason::Expired => {
          let has_expiry = sc.ttl_ns.is_some() || sc.tti_ns.is_some() || w.ttl_ns.is_some();
          if !has_expiry {
            vs.push(viol(sc, "C16", "expired_without_expiry_config", &[], format!("value {} of key {} was notified as Expired but nothing can expire in this configuration", n.id, n.key)));
          } else if sc.tti_ns.is_none() && !w.is_load {
            if let Some(ttl) = w.ttl_ns {
              // earliest possible expiry instant of that value
              let earliest = w.t_inv.saturating_add(ttl);
              if n.now_ns < earliest {
                vs.push(viol(
                  sc,
                  "C16",
                  "expired_notification_for_unexpired_entry",
                  &[("wheel_size", sc.timer_wheel_size.to_string())],
                  format!("value {} of key {} (written at t>={} with ttl {}) was removed as Expired at t={} < {}", n.id, n.key, w.t_inv, ttl, n.now_ns, earliest),
                ));
              }
            }
          }
        }
      }
      // reads that start after the notification was delivered never return that value
      for e in &h.evs {
        if e.inv > n.at && reads_of(e).iter().any(|r| r.1 == n.id) && !matches!(e.op, COp::Remove { .. } | COp::MultiRemove { .. }) {
          vs.push(viol(sc, "C16", "value_read_after_eviction_notification", &[("reason", format!("{:?}", n.reason))], format!("{:?} [{}-{}] returned value {} after the listener had been told (at {}) that it was removed ({:?})", e.op, e.inv, e.ret, n.id, n.at, n.reason)));
          break;
        }
      }
    }
    // when the listener kept up, every user removal is notified
    let kept_up = sc.slow_listener_yields == 0 && h.notes.len() < 100;
    if kept_up {
      for e in &h.evs {
        let removed: Vec<u32> = match (&e.op, &e.res) {
          (COp::Remove { .. }, Res::Val(id, _)) => vec![*id],
          (COp::MultiRemove { .. }, Res::Many(v)) => v.iter().map(|x| x.1).collect(),
          _ => vec![],
        };
        for id in removed {
          if !h.notes.iter().any(|n| n.id == id) {
            vs.push(viol(sc, "C16", "removal_not_notified", &[("op", op_name(&e.op))], format!("{:?} removed value {id} but the listener (which kept up) was never notified", e.op)));
          }
        }
      }
      // ... and so is every removal the cache made on its own (capacity eviction, expiry): the
      // definitely-last value written to a key that no user operation removed and that is no
      // longer in the map at the drain audit was taken out by the cache itself.
      if let Some(fin) = &h.fin {
        if fin.settled && !fin.audit.is_empty() {
          for k in 0..8u8 {
            let kw: Vec<&Write> = writes.iter().filter(|w| w.key == k).collect();
            let Some(last) = kw.iter().find(|w| w.ret != u64::MAX && kw.iter().all(|o| o.id == w.id || o.ret < w.inv)) else { continue };
            if removals.iter().any(|r| (r.key.is_none() || r.key == Some(k)) && r.ret >= last.inv) {
              continue;
            }
            let Some(a) = fin.audit.iter().find(|a| a.0 == k) else { continue };
            let still_there = a.1.is_some() || fin.residents.iter().any(|r| r.0 == k);
            if !still_there && !h.notes.iter().any(|n| n.id == last.id) {
              vs.push(viol(sc, "C16", "eviction_not_notified", &[], format!("value {} is the last one written to key {k}, nobody removed it, it is no longer in the cache at quiescence, yet the listener (which kept up) was never told (notifications: {:?})", last.id, h.notes.iter().map(|n| (n.key, n.id, n.reason)).collect::<Vec<_>>())));
            }
          }
        }
      }
    }
  }

  // ---- C14 (system view): the policy contract as exercised by the cache ---------------------
  policy_contract(sc, h, &mut vs);
  resident_entries_known_to_policy(sc, h, &mut vs);
  vs
}

fn op_name(op: &COp) -> String {
  let s = format!("{op:?}");
  s.split(|c: char| c == ' ' || c == '{').next().unwrap_or("").to_string()
}

/// Reference bookkeeping of the tracked set per shard, replayed over the proxy's call log.
/// C13: capacity and cost accounting at quiescence (`may_hide`: the configuration can hold
/// expired-but-uncollected entries, which are resident yet invisible to every read).
pub fn accounting_rules(sc: &CacheSc, h: &Hist, may_hide: bool, vs: &mut Vec<Violation>) {
  // ---- C13: capacity and cost accounting at quiescence ---------------------------------------
  if let Some(fin) = &h.fin {
    if fin.settled {
      let sum: u64 = fin.residents.iter().map(|r| r.3).sum();
      // Entries that are in the map but hidden from every read (expired, not yet collected) are
      // resident too, so with expiry configured the gauge may exceed what iteration shows. The
      // drain audit decides: after every key was removed the gauge must equal the cost of what
      // is left (normally nothing; a background load may land late) - any drift survives it.
      let left: u64 = fin.audit_left.iter().map(|r| r.3).sum();
      let end_cost = fin.audit.last().map(|a| a.3).unwrap_or(fin.current_cost);
      let drift_at_end = !fin.audit.is_empty() && end_cost != left;
      let expect = if may_hide { fin.current_cost.max(sum) } else { sum };
      if fin.current_cost != expect || fin.current_cost < sum || drift_at_end {
        let high = if drift_at_end { (end_cost.wrapping_sub(left) as i64) > 0 } else { fin.current_cost > sum };
        vs.push(viol(
          sc,
          "C13",
          "current_cost_drift",
          &[("direction", if high { "metric_high".into() } else { "metric_low".into() })],
          format!(
            "at quiescence after {} maintenance passes metrics().current_cost = {} and the visible resident entries cost {} ({:?}); removing every key afterwards left current_cost = {} with entries worth {} resident (audit {:?})",
            fin.maintenance_passes, fin.current_cost, sum, fin.residents, end_cost as i64, left, fin.audit
          ),
        ));
      }
      if let Some(cap) = sc.capacity {
        if expect > cap {
          vs.push(viol(
            sc,
            "C13",
            "capacity_exceeded_at_quiescence",
            &[],
            format!("capacity {cap} but resident entries cost {expect} at quiescence after {} maintenance passes ({:?}); metrics().current_cost = {}", fin.maintenance_passes, fin.residents, fin.current_cost),
          ));
        }
      }
    }
  }
}

/// C13, the enforceability half of the capacity bound: at quiescence every resident entry of a
/// bounded cache is known to its shard's policy. `evict` can only name keys the policy tracks, so
/// an entry it has forgotten (its `on_remove` arrived after the re-admission of the same key, its
/// admission never happened) stays resident whatever the pressure: the bound is then enforced on
/// the rest only, and not at all once the forgotten entries outweigh it. Judged on the proxy's
/// call log (recorded in effective order) up to the moment the drain audit began.
fn resident_entries_known_to_policy(sc: &CacheSc, h: &Hist, vs: &mut Vec<Violation>) {
  if sc.default_policy || sc.policy == PolicyKind::Null || sc.capacity.is_none() {
    return;
  }
  let Some(fin) = &h.fin else { return };
  if !fin.settled || fin.audit_at == 0 {
    return;
  }
  // key -> Some(true) tracked / Some(false) not tracked / None = cannot tell (a rejected re-admission)
  let mut state: BTreeMap<(usize, u8), Option<bool>> = BTreeMap::new();
  for p in h.pol.iter().filter(|p| p.at < fin.audit_at) {
    match &p.call {
      PolCall::Admit { key, decision, victims, .. } => {
        for v in victims {
          state.insert((p.shard, *v), Some(false));
        }
        state.insert((p.shard, *key), if decision == "Reject" { None } else { Some(true) });
      }
      PolCall::Remove { key } => {
        state.insert((p.shard, *key), Some(false));
      }
      PolCall::Evict { victims, .. } => {
        for v in victims {
          state.insert((p.shard, *v), Some(false));
        }
      }
      PolCall::Clear => {
        let shard = p.shard;
        for (k, v) in state.iter_mut() {
          if k.0 == shard {
            *v = Some(false);
          }
        }
      }
      PolCall::Access { .. } => {}
    }
  }
  for (k, id, _, cost) in &fin.residents {
    // the shard of a key is not visible from here: the key is fine if any shard's policy tracks it
    let views: Vec<Option<bool>> = state.iter().filter(|((_, kk), _)| kk == k).map(|(_, v)| *v).collect();
    if views.iter().any(|v| *v == Some(true) || v.is_none()) {
      continue;
    }
    vs.push(viol(
      sc,
      "C13",
      "resident_entry_unknown_to_policy",
      &[],
      format!("at quiescence key {k} (value {id}, cost {cost}) is resident in a cache of capacity {:?} but no shard policy tracks it (last policy calls for it: {:?}): it can never be evicted", sc.capacity, h.pol.iter().filter(|p| p.at < fin.audit_at && matches!(&p.call, PolCall::Admit { key, .. } | PolCall::Remove { key } if key == k)).map(|p| (&p.call, p.at)).collect::<Vec<_>>().iter().rev().take(3).collect::<Vec<_>>()),
    ));
  }
}

fn policy_contract(sc: &CacheSc, h: &Hist, vs: &mut Vec<Violation>) {
  if sc.default_policy || sc.policy == PolicyKind::Null {
    return;
  }
  // key -> the costs the policy was told for it since it was (re-)admitted (admission cost
  // first; access events carry the cost of the entry that was read, which may be older)
  let mut tracked: BTreeMap<usize, BTreeMap<u8, Vec<u64>>> = BTreeMap::new();
  for p in &h.pol {
    let t = tracked.entry(p.shard).or_default();
    match &p.call {
      PolCall::Access { key, cost } => {
        if let Some(c) = t.get_mut(key) {
          if !c.contains(cost) {
            c.push(*cost);
          }
        }
      }
      PolCall::Admit { key, cost, decision, victims } => {
        for v in victims {
          match t.remove(v) {
            Some(_) => {}
            None => {
              // victims may also belong to the key just admitted (self-eviction of an item
              // larger than the policy's share)
              if v != key {
                vs.push(viol(sc, "C14", "admission_victim_not_tracked", &[], format!("shard {}: on_admit({key}, {cost}) nominated victim {v} that the policy was not tracking", p.shard)));
              }
            }
          }
        }
        if decision != "Reject" && !victims.contains(key) {
          // a re-admission may or may not replace the recorded cost (FIFO keeps the first one)
          let e = t.entry(*key).or_default();
          if !e.contains(cost) {
            e.push(*cost);
          }
        }
      }
      PolCall::Remove { key } => {
        t.remove(key);
      }
      PolCall::Evict { want, victims, freed } => {
        let mut lo = 0;
        let mut hi = 0;
        let mut seen = BTreeSet::new();
        let mut all_tracked = true;
        for v in victims {
          if !seen.insert(*v) {
            vs.push(viol(sc, "C14", "victim_nominated_twice", &[], format!("shard {}: evict({want}) nominated key {v} twice", p.shard)));
          }
          match t.remove(v) {
            Some(c) => {
              lo += c.iter().min().copied().unwrap_or(0);
              hi += c.iter().max().copied().unwrap_or(0);
            }
            None => {
              all_tracked = false;
              vs.push(viol(sc, "C14", "evict_victim_not_tracked", &[], format!("shard {}: evict({want}) nominated key {v} that the policy was not tracking", p.shard)))
            }
          }
        }
        if all_tracked && (*freed < lo || *freed > hi) {
          vs.push(viol(sc, "C14", "evict_reported_wrong_cost", &[], format!("shard {}: evict({want}) reported {freed} freed but the costs it was told for its victims {victims:?} sum to between {lo} and {hi}", p.shard)));
        }
        let remaining: u64 = t.values().map(|c| c.iter().min().copied().unwrap_or(0)).sum();
        // (W-TinyLFU never nominates keys sitting in its admission window, so "evictable" is
        // not observable from outside for that policy)
        if *freed < *want && remaining >= *want - *freed && sc.policy != PolicyKind::TinyLfu {
          vs.push(viol(sc, "C14", "evict_freed_less_than_requested", &[], format!("shard {}: evict({want}) freed only {freed} although tracked keys worth {remaining} remain ({t:?})", p.shard)));
        }
      }
      PolCall::Clear => {
        t.clear();
      }
    }
  }
}
