//! Stand-in for the slice of `std::sync::mpsc` the cache's janitor uses (`sync_channel`,
//! `SyncSender::{try_send, send}`, `Receiver::{recv_timeout, try_recv, recv}`), on shuttle
//! primitives and the virtual clock. `recv_timeout(d)` is "one scheduling point; deliver a pending
//! message if any, else let `d` of virtual time pass (unless the run keeps time manually) and
//! time out" - which makes the janitor a simulated actor that can run between any two steps of
//! any client and never sleeps for real.

use crate::ctx;
use std::collections::VecDeque;
use std::sync::Arc;
use std::time::Duration;

pub use std::sync::mpsc::{RecvError, RecvTimeoutError, SendError, TryRecvError, TrySendError};

struct Inner<T> {
  q: VecDeque<T>,
  cap: usize,
  senders: usize,
  receiver_alive: bool,
}

pub struct SyncSender<T> {
  inner: Arc<shuttle::sync::Mutex<Inner<T>>>,
}

pub struct Receiver<T> {
  inner: Arc<shuttle::sync::Mutex<Inner<T>>>,
}

pub fn sync_channel<T>(cap: usize) -> (SyncSender<T>, Receiver<T>) {
  let inner = Arc::new(shuttle::sync::Mutex::new(Inner { q: VecDeque::new(), cap: cap.max(1), senders: 1, receiver_alive: true }));
  (SyncSender { inner: inner.clone() }, Receiver { inner })
}

fn lock<T>(m: &shuttle::sync::Mutex<Inner<T>>) -> shuttle::sync::MutexGuard<'_, Inner<T>> {
  match m.lock() {
    Ok(g) => g,
    Err(p) => p.into_inner(),
  }
}

impl<T> SyncSender<T> {
  pub fn try_send(&self, v: T) -> Result<(), TrySendError<T>> {
    let mut g = lock(&self.inner);
    if !g.receiver_alive {
      return Err(TrySendError::Disconnected(v));
    }
    if g.q.len() >= g.cap {
      return Err(TrySendError::Full(v));
    }
    g.q.push_back(v);
    Ok(())
  }

  /// Blocking send: spins with scheduler yields while full (the janitor always drains).
  pub fn send(&self, mut v: T) -> Result<(), SendError<T>> {
    loop {
      match self.try_send(v) {
        Ok(()) => return Ok(()),
        Err(TrySendError::Disconnected(x)) => return Err(SendError(x)),
        Err(TrySendError::Full(x)) => {
          v = x;
          shuttle::thread::yield_now();
        }
      }
    }
  }
}

impl<T> Clone for SyncSender<T> {
  fn clone(&self) -> Self {
    lock(&self.inner).senders += 1;
    SyncSender { inner: self.inner.clone() }
  }
}

impl<T> Drop for SyncSender<T> {
  fn drop(&mut self) {
    lock(&self.inner).senders -= 1;
  }
}

impl<T> Receiver<T> {
  pub fn try_recv(&self) -> Result<T, TryRecvError> {
    let mut g = lock(&self.inner);
    match g.q.pop_front() {
      Some(v) => Ok(v),
      None if g.senders == 0 => Err(TryRecvError::Disconnected),
      None => Err(TryRecvError::Empty),
    }
  }

  pub fn recv_timeout(&self, d: Duration) -> Result<T, RecvTimeoutError> {
    match self.try_recv() {
      Ok(v) => return Ok(v),
      Err(TryRecvError::Disconnected) => return Err(RecvTimeoutError::Disconnected),
      Err(TryRecvError::Empty) => {}
    }
    shuttle::thread::yield_now();
    match self.try_recv() {
      Ok(v) => Ok(v),
      Err(TryRecvError::Disconnected) => Err(RecvTimeoutError::Disconnected),
      Err(TryRecvError::Empty) => {
        if ctx::auto_time() {
          crate::time::advance(d);
        }
        Err(RecvTimeoutError::Timeout)
      }
    }
  }

  pub fn recv(&self) -> Result<T, RecvError> {
    loop {
      match self.try_recv() {
        Ok(v) => return Ok(v),
        Err(TryRecvError::Disconnected) => return Err(RecvError),
        Err(TryRecvError::Empty) => shuttle::thread::yield_now(),
      }
    }
  }
}

impl<T> Drop for Receiver<T> {
  fn drop(&mut self) {
    lock(&self.inner).receiver_alive = false;
  }
}
