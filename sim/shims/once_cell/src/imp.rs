// There's a lot of scary concurrent code in this module, but it is copied from
// `std::sync::Once` with two changes:
//   * no poisoning
//   * init function can fail

// (copied from once_cell 1.21.4 src/imp_std.rs; the only change is this import block: atomics and
// thread park/unpark come from the simulation runtime)
use fibre_verif_rt::chan::thread::{self, Thread};
use fibre_verif_rt::chan::{AtomicBool, AtomicPtr, Ordering};
use std::{
    cell::{Cell, UnsafeCell},
    panic::{RefUnwindSafe, UnwindSafe},
};


pub(crate) struct OnceCell<T> {
    // This `queue` field is the core of the implementation. It encodes two
    // pieces of information:
    //
    // * The current state of the cell (`INCOMPLETE`, `RUNNING`, `COMPLETE`)
    // * Linked list of threads waiting for the current cell.
    //
    // State is encoded in two low bits. Only `INCOMPLETE` and `RUNNING` states
    // allow waiters.
    queue: AtomicPtr<Waiter>,
    value: UnsafeCell<Option<T>>,
}

// Why do we need `T: Send`?
// Thread A creates a `OnceCell` and shares it with
// scoped thread B, which fills the cell, which is
// then destroyed by A. That is, destructor observes
// a sent value.
unsafe impl<T: Sync + Send> Sync for OnceCell<T> {}
unsafe impl<T: Send> Send for OnceCell<T> {}

impl<T: RefUnwindSafe + UnwindSafe> RefUnwindSafe for OnceCell<T> {}
impl<T: UnwindSafe> UnwindSafe for OnceCell<T> {}

impl<T> OnceCell<T> {
    pub(crate) fn new() -> OnceCell<T> {
        OnceCell { queue: AtomicPtr::new(INCOMPLETE_PTR), value: UnsafeCell::new(None) }
    }

    pub(crate) fn with_value(value: T) -> OnceCell<T> {
        OnceCell { queue: AtomicPtr::new(COMPLETE_PTR), value: UnsafeCell::new(Some(value)) }
    }

    /// Safety: synchronizes with store to value via Release/(Acquire|SeqCst).
    #[inline]
    pub(crate) fn is_initialized(&self) -> bool {
        // An `Acquire` load is enough because that makes all the initialization
        // operations visible to us, and, this being a fast path, weaker
        // ordering helps with performance. This `Acquire` synchronizes with
        // `SeqCst` operations on the slow path.
        self.queue.load(Ordering::Acquire) == COMPLETE_PTR
    }

    /// Safety: synchronizes with store to value via SeqCst read from state,
    /// writes value only once because we never get to INCOMPLETE state after a
    /// successful write.
    #[cold]
    pub(crate) fn initialize<F, E>(&self, f: F) -> Result<(), E>
    where
        F: FnOnce() -> Result<T, E>,
    {
        let mut f = Some(f);
        let mut res: Result<(), E> = Ok(());
        let slot: *mut Option<T> = self.value.get();
        initialize_or_wait(
            &self.queue,
            Some(&mut || {
                let f = unsafe { f.take().unwrap_unchecked() };
                match f() {
                    Ok(value) => {
                        unsafe { *slot = Some(value) };
                        true
                    }
                    Err(err) => {
                        res = Err(err);
                        false
                    }
                }
            }),
        );
        res
    }

    #[cold]
    pub(crate) fn wait(&self) {
        initialize_or_wait(&self.queue, None);
    }

    /// Get the reference to the underlying value, without checking if the cell
    /// is initialized.
    ///
    /// # Safety
    ///
    /// Caller must ensure that the cell is in initialized state, and that
    /// the contents are acquired by (synchronized to) this thread.
    pub(crate) unsafe fn get_unchecked(&self) -> &T {
        debug_assert!(self.is_initialized());
        let slot = &*self.value.get();
        slot.as_ref().unwrap_unchecked()
    }

    /// Gets the mutable reference to the underlying value.
    /// Returns `None` if the cell is empty.
    pub(crate) fn get_mut(&mut self) -> Option<&mut T> {
        // Safe b/c we have a unique access.
        unsafe { &mut *self.value.get() }.as_mut()
    }

    /// Consumes this `OnceCell`, returning the wrapped value.
    /// Returns `None` if the cell was empty.
    #[inline]
    pub(crate) fn into_inner(self) -> Option<T> {
        // Because `into_inner` takes `self` by value, the compiler statically
        // verifies that it is not currently borrowed.
        // So, it is safe to move out `Option<T>`.
        self.value.into_inner()
    }
}

// Three states that a OnceCell can be in, encoded into the lower bits of `queue` in
// the OnceCell structure.
const INCOMPLETE: usize = 0x0;
const RUNNING: usize = 0x1;
const COMPLETE: usize = 0x2;
const INCOMPLETE_PTR: *mut Waiter = INCOMPLETE as *mut Waiter;
const COMPLETE_PTR: *mut Waiter = COMPLETE as *mut Waiter;

// Mask to learn about the state. All other bits are the queue of waiters if
// this is in the RUNNING state.
const STATE_MASK: usize = 0x3;

/// Representation of a node in the linked list of waiters in the RUNNING state.
/// A waiters is stored on the stack of the waiting threads.
#[repr(align(4))] // Ensure the two lower bits are free to use as state bits.
struct Waiter {
    thread: Cell<Option<Thread>>,
    signaled: AtomicBool,
    next: *mut Waiter,
}

/// Drains and notifies the queue of waiters on drop.
struct Guard<'a> {
    queue: &'a AtomicPtr<Waiter>,
    new_queue: *mut Waiter,
}

impl Drop for Guard<'_> {
    fn drop(&mut self) {
        let queue = self.queue.swap(self.new_queue, Ordering::AcqRel);

        let state = strict::addr(queue) & STATE_MASK;
        assert_eq!(state, RUNNING);

        unsafe {
            let mut waiter = strict::map_addr(queue, |q| q & !STATE_MASK);
            while !waiter.is_null() {
                let next = (*waiter).next;
                let thread = (*waiter).thread.take().unwrap();
                (*waiter).signaled.store(true, Ordering::Release);
                waiter = next;
                thread.unpark();
            }
        }
    }
}

// Corresponds to `std::sync::Once::call_inner`.
//
// Originally copied from std, but since modified to remove poisoning and to
// support wait.
//
// Note: this is intentionally monomorphic
#[inline(never)]
fn initialize_or_wait(queue: &AtomicPtr<Waiter>, mut init: Option<&mut dyn FnMut() -> bool>) {
    let mut curr_queue = queue.load(Ordering::Acquire);

    loop {
        let curr_state = strict::addr(curr_queue) & STATE_MASK;
        match (curr_state, &mut init) {
            (COMPLETE, _) => return,
            (INCOMPLETE, Some(init)) => {
                let exchange = queue.compare_exchange(
                    curr_queue,
                    strict::map_addr(curr_queue, |q| (q & !STATE_MASK) | RUNNING),
                    Ordering::Acquire,
                    Ordering::Acquire,
                );
                if let Err(new_queue) = exchange {
                    curr_queue = new_queue;
                    continue;
                }
                let mut guard = Guard { queue, new_queue: INCOMPLETE_PTR };
                if init() {
                    guard.new_queue = COMPLETE_PTR;
                }
                return;
            }
            (INCOMPLETE, None) | (RUNNING, _) => {
                wait(queue, curr_queue);
                curr_queue = queue.load(Ordering::Acquire);
            }
            _ => debug_assert!(false),
        }
    }
}

fn wait(queue: &AtomicPtr<Waiter>, mut curr_queue: *mut Waiter) {
    let curr_state = strict::addr(curr_queue) & STATE_MASK;
    loop {
        let node = Waiter {
            thread: Cell::new(Some(thread::current())),
            signaled: AtomicBool::new(false),
            next: strict::map_addr(curr_queue, |q| q & !STATE_MASK),
        };
        let me = &node as *const Waiter as *mut Waiter;

        let exchange = queue.compare_exchange(
            curr_queue,
            strict::map_addr(me, |q| q | curr_state),
            Ordering::Release,
            Ordering::Relaxed,
        );
        if let Err(new_queue) = exchange {
            if strict::addr(new_queue) & STATE_MASK != curr_state {
                return;
            }
            curr_queue = new_queue;
            continue;
        }

        while !node.signaled.load(Ordering::Acquire) {
            thread::park();
        }
        break;
    }
}

// Polyfill of strict provenance from https://crates.io/crates/sptr.
//
// Use free-standing function rather than a trait to keep things simple and
// avoid any potential conflicts with future stabile std API.
mod strict {
    #[must_use]
    #[inline]
    pub(crate) fn addr<T>(ptr: *mut T) -> usize
    where
        T: Sized,
    {
        // FIXME(strict_provenance_magic): I am magic and should be a compiler intrinsic.
        // SAFETY: Pointer-to-integer transmutes are valid (if you are okay with losing the
        // provenance).
        unsafe { core::mem::transmute(ptr) }
    }

    #[must_use]
    #[inline]
    pub(crate) fn with_addr<T>(ptr: *mut T, addr: usize) -> *mut T
    where
        T: Sized,
    {
        // FIXME(strict_provenance_magic): I am magic and should be a compiler intrinsic.
        //
        // In the mean-time, this operation is defined to be "as if" it was
        // a wrapping_offset, so we can emulate it as such. This should properly
        // restore pointer provenance even under today's compiler.
        let self_addr = self::addr(ptr) as isize;
        let dest_addr = addr as isize;
        let offset = dest_addr.wrapping_sub(self_addr);

        // This is the canonical desugarring of this operation,
        // but `pointer::cast` was only stabilized in 1.38.
        // self.cast::<u8>().wrapping_offset(offset).cast::<T>()
        (ptr as *mut u8).wrapping_offset(offset) as *mut T
    }

    #[must_use]
    #[inline]
    pub(crate) fn map_addr<T>(ptr: *mut T, f: impl FnOnce(usize) -> usize) -> *mut T
    where
        T: Sized,
    {
        self::with_addr(ptr, f(addr(ptr)))
    }
}

