//! The third backend of `channels/src/internal/sync.rs` (next to `real.rs` and `mocked.rs`):
//! identical export list, shuttle-backed.

pub use crate::sync::{
  fence, AtomicBool, AtomicPtr, AtomicU32, AtomicU64, AtomicU8, AtomicUsize, Mutex, Ordering,
};
pub use crate::time::Instant;

/// `hint::spin_loop()` is a scheduler yield, so wait-for-progress spins are explorable.
pub mod hint {
  pub fn spin_loop() {
    crate::ctx::spin_hint();
  }
}

/// Collapses the spin budgets (`SPIN_*`, `SYNC_SPIN_LIMIT`, ...) exactly as the loom backend does,
/// so park paths are reached after a handful of steps.
pub const IS_LOOM: bool = true;

/// `shuttle::sync::Arc` is std's Arc; handle reference counting carries no protocol here.
pub use std::sync::Arc;

pub use self::thread::Thread;

pub mod thread {
  use crate::ctx::{self, FaultKind};
  use std::sync::atomic::{AtomicBool, Ordering};
  use std::sync::Arc;
  use std::time::Duration;

  pub use shuttle::thread::{scope, Builder, Scope, ScopedJoinHandle, ThreadId};

  /// std's `JoinHandle` surface (shuttle's own handle has no `is_finished`).
  pub struct JoinHandle<T> {
    inner: shuttle::thread::JoinHandle<T>,
    finished: Arc<AtomicBool>,
  }

  impl<T> JoinHandle<T> {
    pub fn join(self) -> std::thread::Result<T> {
      self.inner.join()
    }
    pub fn thread(&self) -> &shuttle::thread::Thread {
      self.inner.thread()
    }
    /// A plain read, as in std (callers poll it between sleeps, which are scheduling points).
    pub fn is_finished(&self) -> bool {
      self.finished.load(Ordering::SeqCst)
    }
  }

  shuttle::thread_local! {
    // The harness-owned park token of this simulated thread. (A plain std atomic: only one
    // simulated thread runs at a time; the scheduling points are the shuttle calls around it.)
    static TOKEN: Arc<AtomicBool> = Arc::new(AtomicBool::new(false));
    // depth of open "must not park" sections on this simulated thread
    static NO_PARK_DEPTH: std::cell::Cell<u32> = std::cell::Cell::new(0);
  }

  /// Handle to a simulated thread: shuttle's handle plus the harness-owned park token.
  #[derive(Clone, Debug)]
  pub struct Thread {
    inner: shuttle::thread::Thread,
    token: Arc<AtomicBool>,
  }

  impl Thread {
    pub fn unpark(&self) {
      self.token.store(true, Ordering::SeqCst);
      self.inner.unpark();
    }
    pub fn id(&self) -> ThreadId {
      self.inner.id()
    }
    pub fn name(&self) -> Option<&str> {
      self.inner.name()
    }
  }

  pub fn current() -> Thread {
    Thread {
      inner: shuttle::thread::current(),
      token: TOKEN.with(|t| t.clone()),
    }
  }

  pub fn spawn<F, T>(f: F) -> JoinHandle<T>
  where
    F: FnOnce() -> T + Send + 'static,
    T: Send + 'static,
  {
    let finished = Arc::new(AtomicBool::new(false));
    let f2 = finished.clone();
    struct Done(Arc<AtomicBool>);
    impl Drop for Done {
      fn drop(&mut self) {
        self.0.store(true, Ordering::SeqCst);
      }
    }
    let inner = shuttle::thread::spawn(move || {
      let _done = Done(f2);
      f()
    });
    JoinHandle { inner, finished }
  }

  pub fn yield_now() {
    shuttle::thread::yield_now();
  }

  fn take_token() -> bool {
    TOKEN.with(|t| t.swap(false, Ordering::SeqCst))
  }

  fn check_no_park() {
    if NO_PARK_DEPTH.with(|d| d.get()) > 0 {
      ctx::note_no_park_violation();
    }
  }

  /// std's contract: blocks until the token is available; may return spuriously.
  pub fn park() {
    let mut first = true;
    loop {
      if take_token() {
        // the wake overtook the park: the notifier ran between the waiter's last check and its park
        ctx::probe(if first { "park_found_token_already_set" } else { "park_woken_by_unpark" });
        return;
      }
      first = false;
      check_no_park();
      ctx::probe("park_blocked");
      // Blocks in shuttle; the scheduler may wake a parked task spuriously (it counts those as
      // F1), and a stale shuttle-level token may let this return at once.
      shuttle::thread::park();
      if take_token() {
        ctx::probe("park_woken_by_unpark");
        return;
      }
      // Woken without our token: a spurious wake-up. Either surface it to the caller (legal per
      // std's contract) or park again.
      if ctx::coin(ctx::rates().spurious_park_return) {
        ctx::fault_fired(FaultKind::SpuriousUnpark);
        return;
      }
    }
  }

  /// Timed park on the virtual clock: one scheduling point, then return with the token if it
  /// arrived, else with the clock advanced by a seeded fraction of `d` (early / exactly at /
  /// late), which is the "timeout fires at any point" quantifier. Never sleeps for real.
  pub fn park_timeout(d: Duration) {
    if take_token() {
      return;
    }
    check_no_park();
    shuttle::thread::yield_now();
    if take_token() {
      ctx::probe("park_timeout_woken_in_time");
      return;
    }
    let ns = d.as_nanos().min(u64::MAX as u128 / 8) as u64;
    let adv = match ctx::below(4) {
      0 => ns / 4,
      1 => ns / 2,
      2 => ns,
      _ => ns.saturating_add(1),
    };
    crate::time::advance_ns(adv.max(1));
    ctx::fault_fired(FaultKind::TimeoutFired);
  }

  pub fn sleep(d: Duration) {
    if ctx::auto_time() {
      crate::time::advance(d);
    }
    shuttle::thread::yield_now();
  }

  /// Open a "must not park" section on the current simulated thread (for `try_*` and publish
  /// oracles); parks inside it are counted in `ctx::no_park_violations()`.
  pub fn no_park_section<R>(f: impl FnOnce() -> R) -> R {
    NO_PARK_DEPTH.with(|d| d.set(d.get() + 1));
    let r = f();
    NO_PARK_DEPTH.with(|d| d.set(d.get() - 1));
    r
  }
}
