pub mod task {
  pub async fn yield_now() {
    shuttle::future::yield_now().await
  }
}
