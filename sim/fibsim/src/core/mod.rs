pub mod batch;
pub mod check;
pub mod known;
pub mod rng;
pub mod run;
pub mod sched;
