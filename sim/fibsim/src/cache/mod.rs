//! CACHE families: the real `fibre_cache` (handles, entry API, store, janitor, notifier, loader,
//! timer wheel, policies, iterators, snapshot) on the simulation backend. Client threads/tasks,
//! the janitor, the notifier and loader threads are all simulated threads; time is the virtual
//! clock.

pub mod hist;
pub mod oracle;
pub mod policy_seq;

use crate::chan::conc::{Knobs, ModeSer};
use crate::chan::drive::{drive, Plan};
use crate::core::batch::{hash_str, Evaluated, Family};
use crate::core::rng::Rng;
use crate::core::run::{RunCfg, RunOut};
use fibre_cache::policy::{AdmissionDecision, CachePolicy};
use fibre_cache::{AsyncCache, Cache, CacheBuilder, EvictionListener, EvictionReason, TaskSpawner};
use fibre_verif_rt::ctx::{self, next_seq, FaultKind};
use fibre_verif_rt::hash::DetState;
use serde::{Deserialize, Serialize};
use serde_json::{json, Value};
use std::cell::{Cell, RefCell};
use std::sync::Arc;
use std::time::Duration;

#[derive(Clone, Debug, Serialize, Deserialize, PartialEq)]
pub struct Val {
  pub id: u32,
  pub key: u8,
  pub cost: u64,
  pub ctr: u32,
}

pub type SCache = Cache<u8, Val, DetState>;
pub type ACache = AsyncCache<u8, Val, DetState>;

#[derive(Clone, Copy, Debug, Serialize, Deserialize, PartialEq, Eq, Hash, PartialOrd, Ord)]
pub enum PolicyKind {
  TinyLfu,
  Sieve,
  Slru,
  Arc,
  Lru,
  Fifo,
  Clock,
  Random,
  Null,
}

impl PolicyKind {
  pub const ALL: [PolicyKind; 9] = [PolicyKind::TinyLfu, PolicyKind::Sieve, PolicyKind::Slru, PolicyKind::Arc, PolicyKind::Lru, PolicyKind::Fifo, PolicyKind::Clock, PolicyKind::Random, PolicyKind::Null];
  pub fn make(self, shard_capacity: u64) -> Box<dyn CachePolicy<u8, Val>> {
    use fibre_cache::policy::*;
    match self {
      PolicyKind::TinyLfu => Box::new(tinylfu::TinyLfuPolicy::new(shard_capacity)),
      PolicyKind::Sieve => Box::new(sieve::SievePolicy::new()),
      PolicyKind::Slru => Box::new(slru::SlruPolicy::new(shard_capacity)),
      PolicyKind::Arc => Box::new(arc::ArcPolicy::new(shard_capacity as usize)),
      PolicyKind::Lru => Box::new(lru::LruPolicy::new()),
      PolicyKind::Fifo => Box::new(fifo::Fifo::new()),
      PolicyKind::Clock => Box::new(clock::ClockPolicy::new()),
      PolicyKind::Random => Box::new(random::RandomPolicy::new()),
      PolicyKind::Null => Box::new(null::NullPolicy),
    }
  }
}

#[derive(Clone, Copy, Debug, Serialize, Deserialize, PartialEq)]
pub enum LoaderKind {
  None,
  Sync,
  Async,
}

#[derive(Clone, Debug, Serialize, Deserialize, PartialEq)]
pub enum COp {
  Insert { k: u8, cost: u64 },
  InsertTtl { k: u8, cost: u64, ttl_ns: u64 },
  Get { k: u8 },
  Fetch { k: u8 },
  Peek { k: u8 },
  Remove { k: u8 },
  Invalidate { k: u8 },
  Clear,
  Compute { k: u8 },
  EntryOrInsert { k: u8, cost: u64 },
  /// entry(k).or_insert_with(closure): the closure yields `yields` times before it returns
  EntryOrInsertWith { k: u8, cost: u64, yields: u8 },
  EntryGet { k: u8 },
  FetchWith { k: u8 },
  MultiGet { ks: Vec<u8> },
  MultiInsert { items: Vec<(u8, u64)> },
  MultiRemove { ks: Vec<u8> },
  Iter { batch: u8 },
  /// sync iteration that advances the virtual clock by `ns` after `after` items
  IterStep { batch: u8, after: u8, ns: u64 },
  /// sync iteration during which the iterating thread itself invalidates `ks` after `after` items
  IterRemove { batch: u8, after: u8, ks: Vec<u8> },
  IterSnapshot,
  /// to_snapshot(), read back through its serialised form
  Snapshot,
  RunMaintenance,
  Metrics,
  /// advance the virtual clock (only meaningful when the run keeps time by hand)
  Advance { ns: u64 },
  Yield,
}

#[derive(Clone, Debug, Serialize, Deserialize, PartialEq)]
pub struct Client {
  pub is_async: bool,
  pub ops: Vec<COp>,
}

#[derive(Clone, Debug, Serialize, Deserialize, PartialEq)]
pub struct CacheSc {
  pub shards: usize,
  /// None = unbounded
  pub capacity: Option<u64>,
  pub policy: PolicyKind,
  /// use the builder's default policy selection instead of an explicit factory
  pub default_policy: bool,
  pub ttl_ns: Option<u64>,
  pub tti_ns: Option<u64>,
  pub swr_ns: Option<u64>,
  pub listener: bool,
  pub slow_listener_yields: u8,
  pub loader: LoaderKind,
  pub loader_yields: u8,
  pub janitor_tick_ns: u64,
  pub maintenance_chance: u32,
  pub introspection_maintenance: bool,
  pub timer_wheel_size: usize,
  pub timer_tick_ns: u64,
  /// waiting lets virtual time pass (false: only `Advance` ops move the clock)
  pub auto_time: bool,
  pub clients: Vec<Client>,
  pub knobs: Knobs,
}

// ------------------------------------------------------------------------------------------
// History

#[derive(Clone, Debug, PartialEq)]
pub enum Res {
  None,
  /// value id and its counter
  Val(u32, u32),
  Bool(bool),
  /// (key, id, ctr) list
  Many(Vec<(u8, u32, u32)>),
  Unit,
  Metrics { current_cost: u64 },
  /// snapshot entries: (key, id, ctr, cost, remaining ttl in ns)
  Snap(Vec<(u8, u32, u32, u64, Option<u64>)>),
}

#[derive(Clone, Debug)]
pub struct CEv {
  pub client: u8,
  pub op: COp,
  /// value ids this operation wrote (insert / or_insert when it inserted / multi_insert)
  pub wrote: Vec<(u8, u32)>,
  pub res: Res,
  pub inv: u64,
  pub ret: u64,
  pub now_ns_inv: u64,
  pub now_ns_ret: u64,
}

#[derive(Clone, Debug)]
pub struct LoadEv {
  pub key: u8,
  pub id: u32,
  pub cost: u64,
  pub begin: u64,
  pub end: u64,
}

#[derive(Clone, Debug)]
pub struct NoteEv {
  pub key: u8,
  pub id: u32,
  pub ctr: u32,
  pub reason: EvictionReason,
  pub at: u64,
  pub now_ns: u64,
}

#[derive(Clone, Debug)]
pub enum PolCall {
  Access { key: u8, cost: u64 },
  Admit { key: u8, cost: u64, decision: String, victims: Vec<u8> },
  Remove { key: u8 },
  Evict { want: u64, victims: Vec<u8>, freed: u64 },
  Clear,
}

#[derive(Clone, Debug)]
pub struct PolEv {
  pub shard: usize,
  pub call: PolCall,
  pub at: u64,
}

#[derive(Clone, Debug, Default)]
pub struct Final {
  pub residents: Vec<(u8, u32, u32, u64)>, // key, id, ctr, cost
  pub current_cost: u64,
  pub maintenance_passes: u32,
  pub settled: bool,
  pub now_ns: u64,
  /// Drain audit, run after everything above was observed: every key of the universe is
  /// removed; (key, id of the removed value if any, current_cost before, current_cost after).
  pub audit: Vec<(u8, Option<u32>, u64, u64)>,
  /// what iteration still shows after the drain (a background load may land late)
  pub audit_left: Vec<(u8, u32, u32, u64)>,
  /// event stamp at which the drain audit began (policy calls after it belong to the audit)
  pub audit_at: u64,
}

#[derive(Default)]
pub struct Hist {
  pub evs: Vec<CEv>,
  pub loads: Vec<LoadEv>,
  pub notes: Vec<NoteEv>,
  pub pol: Vec<PolEv>,
  pub fin: Option<Final>,
  /// set when the drain audit begins: its removals are not part of the judged history
  pub audit_started: bool,
}

thread_local! {
  static HIST: RefCell<Hist> = RefCell::new(Hist::default());
  static NEXT_ID: Cell<u32> = const { Cell::new(1) };
  static CUR: RefCell<Option<Arc<CacheSc>>> = const { RefCell::new(None) };
}

fn with_hist<R>(f: impl FnOnce(&Hist) -> R) -> R {
  HIST.with(|h| f(&h.borrow()))
}

fn reset_hist() {
  HIST.with(|h| *h.borrow_mut() = Hist::default());
  NEXT_ID.with(|n| n.set(1));
}

fn take_hist() -> Hist {
  HIST.with(|h| std::mem::take(&mut *h.borrow_mut()))
}

fn set_current(sc: Option<Arc<CacheSc>>) {
  CUR.with(|c| *c.borrow_mut() = sc);
}

fn fresh_id() -> u32 {
  NEXT_ID.with(|n| {
    let v = n.get();
    n.set(v + 1);
    v
  })
}

fn push_ev(e: CEv) {
  HIST.with(|h| h.borrow_mut().evs.push(e));
}

// ------------------------------------------------------------------------------------------
// Seams: policy proxy, listener, loader, spawner

struct PolicyProxy {
  shard: usize,
  inner: Box<dyn CachePolicy<u8, Val>>,
  /// serialises calls so the recorded order is the effective order
  gate: shuttle::sync::Mutex<()>,
}

impl PolicyProxy {
  fn log(&self, call: PolCall) {
    let at = next_seq();
    HIST.with(|h| h.borrow_mut().pol.push(PolEv { shard: self.shard, call, at }));
  }
}

impl CachePolicy<u8, Val> for PolicyProxy {
  fn on_access(&self, key: &u8, cost: u64) {
    let _g = self.gate.lock().unwrap();
    self.inner.on_access(key, cost);
    self.log(PolCall::Access { key: *key, cost });
  }
  fn uses_access_events(&self) -> bool {
    self.inner.uses_access_events()
  }
  fn on_admit(&self, key: &u8, cost: u64) -> AdmissionDecision<u8> {
    let _g = self.gate.lock().unwrap();
    let d = self.inner.on_admit(key, cost);
    let (name, victims) = match &d {
      AdmissionDecision::Admit => ("Admit", vec![]),
      AdmissionDecision::Reject => ("Reject", vec![]),
      AdmissionDecision::AdmitAndEvict(v) => ("AdmitAndEvict", v.clone()),
    };
    self.log(PolCall::Admit { key: *key, cost, decision: name.into(), victims });
    d
  }
  fn on_remove(&self, key: &u8) {
    let _g = self.gate.lock().unwrap();
    self.inner.on_remove(key);
    self.log(PolCall::Remove { key: *key });
  }
  fn evict(&self, cost_to_free: u64) -> (Vec<u8>, u64) {
    let _g = self.gate.lock().unwrap();
    let (v, c) = self.inner.evict(cost_to_free);
    self.log(PolCall::Evict { want: cost_to_free, victims: v.clone(), freed: c });
    (v, c)
  }
  fn clear(&self) {
    let _g = self.gate.lock().unwrap();
    self.inner.clear();
    self.log(PolCall::Clear);
  }
}

struct Listener {
  slow_yields: u8,
}

impl EvictionListener<u8, Val> for Listener {
  fn on_evict(&self, key: u8, value: Arc<Val>, reason: EvictionReason) {
    for _ in 0..self.slow_yields {
      ctx::fault_fired(FaultKind::SlowParty);
      shuttle::thread::yield_now();
    }
    let at = next_seq();
    let now_ns = fibre_verif_rt::time::now_ns();
    HIST.with(|h| {
      let mut h = h.borrow_mut();
      if !h.audit_started {
        h.notes.push(NoteEv { key, id: value.id, ctr: value.ctr, reason, at, now_ns });
      }
    });
  }
}

struct SimSpawner;

impl TaskSpawner for SimSpawner {
  fn spawn(&self, future: std::pin::Pin<Box<dyn std::future::Future<Output = ()> + Send>>) {
    shuttle::future::spawn(future);
  }
}

fn load_sync(key: u8, yields: u8, cost: u64) -> (Val, u64) {
  let begin = next_seq();
  for _ in 0..yields {
    ctx::fault_fired(FaultKind::SlowParty);
    shuttle::thread::yield_now();
  }
  let id = fresh_id();
  let end = next_seq();
  HIST.with(|h| h.borrow_mut().loads.push(LoadEv { key, id, cost, begin, end }));
  (Val { id, key, cost, ctr: 0 }, cost)
}

pub fn build_cache(sc: &CacheSc) -> SCache {
  make_builder(sc).build().expect("cache build")
}

pub fn make_builder(sc: &CacheSc) -> CacheBuilder<u8, Val, DetState> {
  let mut b: CacheBuilder<u8, Val, DetState> = CacheBuilder::new().hasher(DetState).shards(sc.shards);
  b = match sc.capacity {
    Some(c) => b.capacity(c),
    None => b.unbounded(),
  };
  if !sc.default_policy {
    let kind = sc.policy;
    let shards = sc.shards.max(1).next_power_of_two() as u64;
    let cap = sc.capacity.unwrap_or(u64::MAX);
    let shard_cap = if cap == u64::MAX { u64::MAX / 2 } else { (cap as f64 / shards as f64).ceil() as u64 };
    let counter = Arc::new(std::sync::atomic::AtomicUsize::new(0));
    b = b.cache_policy_factory(move || {
      let shard = counter.fetch_add(1, std::sync::atomic::Ordering::SeqCst);
      Box::new(PolicyProxy { shard, inner: kind.make(shard_cap), gate: shuttle::sync::Mutex::new(()) })
    });
  }
  if let Some(t) = sc.ttl_ns {
    b = b.time_to_live(Duration::from_nanos(t));
  }
  if let Some(t) = sc.tti_ns {
    b = b.time_to_idle(Duration::from_nanos(t));
  }
  if let Some(t) = sc.swr_ns {
    b = b.stale_while_revalidate(Duration::from_nanos(t));
  }
  if sc.listener {
    b = b.eviction_listener(Listener { slow_yields: sc.slow_listener_yields });
  }
  let yields = sc.loader_yields;
  match sc.loader {
    LoaderKind::None => {}
    LoaderKind::Sync => {
      b = b.loader(move |k: u8| load_sync(k, yields, 1 + (k as u64 % 2)));
    }
    LoaderKind::Async => {
      b = b.spawner(Arc::new(SimSpawner)).async_loader(move |k: u8| async move {
        let begin = next_seq();
        for _ in 0..yields {
          ctx::fault_fired(FaultKind::SlowParty);
          shuttle::future::yield_now().await;
        }
        let id = fresh_id();
        let cost = 1 + (k as u64 % 2);
        let end = next_seq();
        HIST.with(|h| h.borrow_mut().loads.push(LoadEv { key: k, id, cost, begin, end }));
        (Val { id, key: k, cost, ctr: 0 }, cost)
      });
    }
  }
  b = b
    .janitor_tick_interval(Duration::from_nanos(sc.janitor_tick_ns.max(1)))
    .maintenance_chance(sc.maintenance_chance.max(1))
    .maintenance_on_introspection(sc.introspection_maintenance)
    .timer_wheel_size(sc.timer_wheel_size.max(1))
    .timer_tick_duration(Duration::from_nanos(sc.timer_tick_ns.max(1)));
  b
}

fn val_res(v: Option<Arc<Val>>) -> Res {
  match v {
    Some(a) => Res::Val(a.id, a.ctr), // the Arc is dropped here (compute needs exclusivity)
    None => Res::None,
  }
}

fn run_client(idx: usize, cl: &Client, cache: &SCache, acache: &ACache) {
  let client = idx as u8;
  for op in &cl.ops {
    let inv = next_seq();
    let now_ns_inv = fibre_verif_rt::time::now_ns();
    let mut wrote: Vec<(u8, u32)> = vec![];
    let a = cl.is_async;
    let res = match op {
      COp::Insert { k, cost } => {
        let id = fresh_id();
        wrote.push((*k, id));
        let v = Val { id, key: *k, cost: *cost, ctr: 0 };
        if a {
          drive(acache.insert(*k, v, *cost), Plan::NONE);
        } else {
          cache.insert(*k, v, *cost);
        }
        Res::Unit
      }
      COp::InsertTtl { k, cost, ttl_ns } => {
        let id = fresh_id();
        wrote.push((*k, id));
        let v = Val { id, key: *k, cost: *cost, ctr: 0 };
        let ttl = Duration::from_nanos((*ttl_ns).max(1));
        if a {
          drive(acache.insert_with_ttl(*k, v, *cost, ttl), Plan::NONE);
        } else {
          cache.insert_with_ttl(*k, v, *cost, ttl);
        }
        Res::Unit
      }
      COp::Get { k } => {
        let r = if a { drive(acache.get(k, |v| (v.id, v.ctr)), Plan::NONE).unwrap() } else { cache.get(k, |v| (v.id, v.ctr)) };
        match r {
          Some((id, ctr)) => Res::Val(id, ctr),
          None => Res::None,
        }
      }
      COp::Fetch { k } => val_res(if a { drive(acache.fetch(k), Plan::NONE).unwrap() } else { cache.fetch(k) }),
      COp::Peek { k } => val_res(if a { drive(acache.peek(k), Plan::NONE).unwrap() } else { cache.peek(k) }),
      COp::Remove { k } => val_res(if a { drive(acache.remove(k), Plan::NONE).unwrap() } else { cache.remove(k) }),
      COp::Invalidate { k } => Res::Bool(if a { drive(acache.invalidate(k), Plan::NONE).unwrap() } else { cache.invalidate(k) }),
      COp::Clear => {
        if a {
          drive(acache.clear(), Plan::NONE);
        } else {
          cache.clear();
        }
        Res::Unit
      }
      COp::Compute { k } => Res::Bool(if a { drive(acache.compute(k, |v| v.ctr += 1), Plan::NONE).unwrap() } else { cache.compute(k, |v| v.ctr += 1) }),
      COp::EntryOrInsert { k, cost } => {
        let id = fresh_id();
        let v = Val { id, key: *k, cost: *cost, ctr: 0 };
        let got = if a {
          drive(async { acache.entry(*k).await.or_insert(v, *cost) }, Plan::NONE).unwrap()
        } else {
          cache.entry(*k).or_insert(v, *cost)
        };
        if got.id == id {
          wrote.push((*k, id));
        }
        Res::Val(got.id, got.ctr)
      }
      COp::EntryOrInsertWith { k, cost, yields } => {
        let id = fresh_id();
        let (kk, cc, yy) = (*k, *cost, *yields);
        let make = move || {
          for _ in 0..yy {
            ctx::fault_fired(FaultKind::SlowParty);
            shuttle::thread::yield_now();
          }
          Val { id, key: kk, cost: cc, ctr: 0 }
        };
        let got = if a {
          drive(async { acache.entry(*k).await.or_insert_with(make, *cost) }, Plan::NONE).unwrap()
        } else {
          cache.entry(*k).or_insert_with(make, *cost)
        };
        if got.id == id {
          wrote.push((*k, id));
        }
        Res::Val(got.id, got.ctr)
      }
      COp::EntryGet { k } => {
        if a {
          let r = drive(
            async {
              match acache.entry(*k).await {
                fibre_cache::AsyncEntry::Occupied(o) => Some(o.get()),
                fibre_cache::AsyncEntry::Vacant(_) => None,
              }
            },
            Plan::NONE,
          )
          .unwrap();
          val_res(r)
        } else {
          let r = match cache.entry(*k) {
            fibre_cache::Entry::Occupied(o) => Some(o.get()),
            fibre_cache::Entry::Vacant(_) => None,
          };
          val_res(r)
        }
      }
      COp::FetchWith { k } => {
        let v = if a { drive(acache.fetch_with(k), Plan::NONE).unwrap() } else { cache.fetch_with(k) };
        Res::Val(v.id, v.ctr)
      }
      COp::MultiGet { ks } => {
        let m = if a { drive(acache.multiget(ks.clone()), Plan::NONE).unwrap() } else { cache.multiget(ks.clone()) };
        let mut v: Vec<(u8, u32, u32)> = m.into_iter().map(|(k, a)| (k, a.id, a.ctr)).collect();
        v.sort();
        Res::Many(v)
      }
      COp::MultiInsert { items } => {
        let mut batch = vec![];
        for (k, cost) in items {
          let id = fresh_id();
          wrote.push((*k, id));
          batch.push((*k, Val { id, key: *k, cost: *cost, ctr: 0 }, *cost));
        }
        if a {
          drive(acache.multi_insert(batch), Plan::NONE);
        } else {
          cache.multi_insert(batch);
        }
        Res::Unit
      }
      COp::MultiRemove { ks } => {
        let r = if a { drive(acache.multi_remove(ks.clone()), Plan::NONE).unwrap() } else { cache.multi_remove(ks.clone()) };
        let mut v: Vec<(u8, u32, u32)> = r.into_iter().map(|(k, a)| (k, a.id, a.ctr)).collect();
        v.sort();
        Res::Many(v)
      }
      COp::Iter { batch } => {
        let mut v: Vec<(u8, u32, u32)> = if a {
          use futures_util::StreamExt;
          let mut s = acache.iter_stream_with_batch_size((*batch).max(1) as usize);
          let mut out = vec![];
          while let Some(Some((k, val))) = drive(s.next(), Plan::NONE) {
            out.push((k, val.id, val.ctr));
          }
          out
        } else {
          cache.iter_with_batch_size((*batch).max(1) as usize).map(|(k, val)| (k, val.id, val.ctr)).collect()
        };
        v.sort();
        Res::Many(v)
      }
      COp::IterStep { batch, after, ns } => {
        let mut out: Vec<(u8, u32, u32)> = vec![];
        for (k, val) in cache.iter_with_batch_size((*batch).max(1) as usize) {
          out.push((k, val.id, val.ctr));
          if out.len() == *after as usize {
            fibre_verif_rt::time::advance_ns(*ns);
            ctx::fault_fired(FaultKind::ClockJump);
          }
        }
        out.sort();
        Res::Many(out)
      }
      COp::IterRemove { batch, after, ks } => {
        let mut out: Vec<(u8, u32, u32)> = vec![];
        let mut done = false;
        for (k, val) in cache.iter_with_batch_size((*batch).max(1) as usize) {
          out.push((k, val.id, val.ctr));
          drop(val);
          if out.len() == *after as usize && !done {
            done = true;
            for k in ks {
              cache.invalidate(k);
            }
          }
        }
        if !done {
          for k in ks {
            cache.invalidate(k);
          }
        }
        out.sort();
        Res::Many(out)
      }
      COp::IterSnapshot => {
        let mut v: Vec<(u8, u32, u32)> = cache.iter_snapshot().map(|(k, val)| (k, val.id, val.ctr)).collect();
        v.sort();
        Res::Many(v)
      }
      COp::Snapshot => {
        let snap = if a { drive(acache.to_snapshot(), Plan::NONE).unwrap() } else { cache.to_snapshot() };
        Res::Snap(snapshot_entries(&snap))
      }
      COp::RunMaintenance => {
        if a {
          drive(acache.run_maintenance(), Plan::NONE);
        } else {
          cache.run_maintenance();
        }
        Res::Unit
      }
      COp::Metrics => Res::Metrics { current_cost: cache.metrics().current_cost },
      COp::Advance { ns } => {
        fibre_verif_rt::time::advance_ns(*ns);
        ctx::fault_fired(FaultKind::ClockJump);
        Res::Unit
      }
      COp::Yield => {
        shuttle::thread::yield_now();
        Res::Unit
      }
    };
    let ret = next_seq();
    push_ev(CEv { client, op: op.clone(), wrote, res, inv, ret, now_ns_inv, now_ns_ret: fibre_verif_rt::time::now_ns() });
  }
}

/// The entries of a snapshot, read from its serialised form (the fields are crate-private).
pub fn snapshot_entries(snap: &fibre_cache::snapshot::CacheSnapshot<u8, Val>) -> Vec<(u8, u32, u32, u64, Option<u64>)> {
  let v = serde_json::to_value(snap).expect("snapshot serialises");
  let mut out = vec![];
  for e in v["entries"].as_array().cloned().unwrap_or_default() {
    let ttl = match &e["ttl_remaining"] {
      Value::Null => None,
      d => Some(d["secs"].as_u64().unwrap_or(0) * 1_000_000_000 + d["nanos"].as_u64().unwrap_or(0)),
    };
    out.push((
      e["key"].as_u64().unwrap_or(255) as u8,
      e["value"]["id"].as_u64().unwrap_or(0) as u32,
      e["value"]["ctr"].as_u64().unwrap_or(0) as u32,
      e["cost"].as_u64().unwrap_or(u64::MAX),
      ttl,
    ));
  }
  out.sort();
  out
}

fn residents(cache: &SCache) -> Vec<(u8, u32, u32, u64)> {
  let mut v: Vec<(u8, u32, u32, u64)> = cache.iter_snapshot().map(|(k, val)| (k, val.id, val.ctr, val.cost)).collect();
  v.sort();
  v
}

pub fn cache_main() {
  let sc: Arc<CacheSc> = CUR.with(|c| c.borrow().clone()).expect("no current scenario");
  ctx::set_auto_time(sc.auto_time);
  let cache = build_cache(&sc);
  let acache = cache.to_async();
  let mut joins = vec![];
  for (i, _) in sc.clients.iter().enumerate() {
    let sc2 = sc.clone();
    let c = cache.clone();
    let ac = acache.clone();
    joins.push(shuttle::thread::spawn(move || run_client(i, &sc2.clients[i], &c, &ac)));
  }
  for j in joins {
    j.join().unwrap();
  }
  settle_and_audit(&cache, &sc, KEYS as u8);
  drop(acache);
  drop(cache);
}

/// Quiescence: drive maintenance to a fixpoint, let the notifier drain, record `Final`, then
/// run the drain audit.
pub fn settle_and_audit(cache: &SCache, sc: &CacheSc, keys: u8) {
  // quiescence: drive maintenance to a fixpoint (bounded)
  // Settled = two consecutive passes leave residents and current_cost unchanged AND the policies
  // did nothing effective in the last pass (no admission, no eviction that named a victim): a
  // pass that only evicted a key the policy tracked but the map no longer holds changes nothing
  // visible, yet maintenance is not finished. Without the policy proxy a few extra quiet
  // passes are required instead.
  let mut last: Option<(Vec<(u8, u32, u32, u64)>, u64)> = None;
  let mut passes = 0;
  let mut settled = false;
  let mut quiet = 0;
  for _ in 0..60 {
    let pol_before = HIST.with(|h| h.borrow().pol.len());
    cache.run_maintenance();
    passes += 1;
    let effective = HIST.with(|h| {
      h.borrow().pol[pol_before..].iter().any(|p| match &p.call {
        PolCall::Admit { .. } => true,
        PolCall::Evict { victims, .. } => !victims.is_empty(),
        _ => false,
      })
    });
    let cur = (residents(&cache), cache.metrics().current_cost);
    if last.as_ref() == Some(&cur) && !effective {
      quiet += 1;
      if quiet >= if sc.default_policy { 8 } else { 1 } {
        settled = true;
        break;
      }
    } else {
      quiet = 0;
    }
    last = Some(cur);
  }
  // let the notifier deliver what is queued
  if sc.listener {
    let mut stable = 0;
    let mut n = HIST.with(|h| h.borrow().notes.len());
    for _ in 0..2000 {
      shuttle::thread::yield_now();
      let m = HIST.with(|h| h.borrow().notes.len());
      if m == n {
        stable += 1;
        if stable > 30 {
          break;
        }
      } else {
        stable = 0;
        n = m;
      }
    }
  }
  let (res, cost) = last.unwrap_or_default();
  // Drain audit: an entry can be resident without being visible to iteration (expired, not yet
  // collected), so "current_cost equals the cost of what is resident" is decided by taking
  // everything out: each removal must subtract what it removed and the counter must end at 0.
  HIST.with(|h| h.borrow_mut().audit_started = true);
  let audit_at = next_seq();
  let mut audit = vec![];
  for k in 0..keys {
    let c0 = cache.metrics().current_cost;
    let removed = cache.remove(&k).map(|v| v.id);
    let c1 = cache.metrics().current_cost;
    audit.push((k, removed, c0, c1));
  }
  let audit_left = residents(cache);
  if let Some(last) = audit.last_mut() {
    last.3 = cache.metrics().current_cost;
  }
  HIST.with(|h| h.borrow_mut().fin = Some(Final { residents: res, current_cost: cost, maintenance_passes: passes, settled, now_ns: fibre_verif_rt::time::now_ns(), audit, audit_left, audit_at }));
}

/// What a lane emphasises.
#[derive(Clone, Debug)]
pub struct CacheProfile {
  pub faults: bool,
  /// keep expiry out of the way (C11 / C13 / C15 / C16 lanes) or make it the subject (C12)
  pub expiry: bool,
  pub loader: bool,
  pub listener: bool,
  pub bounded: bool,
  pub async_clients: bool,
  pub bulk_ops: bool,
  /// only fetch_with, removals (remove / invalidate / clear) and plain reads over two keys:
  /// loads racing invalidations
  pub loader_race: bool,
  /// only insert / remove / invalidate / reads (and the odd maintenance pass) over two keys
  pub reinsert_race: bool,
}

pub struct CacheFamily {
  pub profile: CacheProfile,
}

const KEYS: u64 = 4;

impl CacheFamily {
  fn gen_op(&self, rng: &mut Rng, sc_loader: bool, expiry: bool) -> COp {
    let k = rng.below(KEYS) as u8;
    let cost = *rng.pick(&[1u64, 1, 1, 2, 3, 0]);
    let p = &self.profile;
    if p.loader_race && sc_loader {
      let k = rng.below(2) as u8;
      return match rng.below(10) {
        0..=4 => COp::FetchWith { k },
        5 => COp::Invalidate { k },
        6 => COp::Remove { k },
        7 => COp::Clear,
        8 => COp::Fetch { k },
        _ => COp::Get { k },
      };
    }
    if p.reinsert_race {
      let k = rng.below(2) as u8;
      // (an entry the policy has forgotten shows at quiescence once it alone outweighs the capacity)
      let cost = *rng.pick(&[1u64, 2, 3, 3]);
      return match rng.below(12) {
        0..=4 => COp::Insert { k, cost },
        5 | 6 => COp::Remove { k },
        7 => COp::Invalidate { k },
        8 => COp::Get { k },
        9 => COp::Fetch { k },
        10 => COp::RunMaintenance,
        _ => COp::Insert { k: 2 + rng.below(2) as u8, cost },
      };
    }
    loop {
      let op = match rng.below(26) {
        0..=4 => COp::Insert { k, cost },
        5 => COp::Get { k },
        6 | 7 => COp::Fetch { k },
        8 => COp::Peek { k },
        9 | 10 => COp::Remove { k },
        11 => COp::Invalidate { k },
        12 => {
          if rng.chance(1, 3) {
            COp::Clear
          } else {
            continue;
          }
        }
        13 | 14 => COp::Compute { k },
        15 => {
          if rng.chance(1, 2) {
            COp::EntryOrInsert { k, cost }
          } else {
            COp::EntryOrInsertWith { k, cost, yields: rng.below(4) as u8 }
          }
        }
        16 => COp::EntryGet { k },
        17 | 18 if sc_loader => COp::FetchWith { k },
        19 if p.bulk_ops => COp::MultiGet { ks: (0..rng.range(1, 3)).map(|_| rng.below(KEYS) as u8).collect() },
        20 if p.bulk_ops => COp::MultiInsert { items: (0..rng.range(1, 3)).map(|_| (rng.below(KEYS) as u8, *rng.pick(&[1u64, 2]))).collect() },
        21 if p.bulk_ops => COp::MultiRemove { ks: (0..rng.range(1, 2)).map(|_| rng.below(KEYS) as u8).collect() },
        22 => COp::Iter { batch: rng.range(1, 3) as u8 },
        23 => COp::RunMaintenance,
        24 if expiry => COp::InsertTtl { k, cost, ttl_ns: *rng.pick(&[1_000u64, 5_000, 20_000]) },
        25 if expiry => COp::Advance { ns: *rng.pick(&[1u64, 999, 1_000, 1_001, 4_999, 5_000, 20_000, 100_000]) },
        _ => continue,
      };
      return op;
    }
  }
}

impl Family for CacheFamily {
  type Sc = CacheSc;

  fn name(&self) -> &'static str {
    "CACHE-CONC"
  }

  fn rule(&self) -> &'static str {
    "one case = one generated cache configuration (policy, 1/2/4 shards, capacity from smaller-than-one-item to never-evicting, optional loader / listener / TTL knobs, janitor tick, maintenance chance) with 2-4 sync or async client threads x <=8 operations over 4 keys, the janitor, notifier and loader threads, under one seeded schedule and fault plan, followed by maintenance driven to a fixpoint; non-trivial = >=3 context switches and >=2 writes (loads included) and >=1 read hit; distinct = distinct scheduler decision-trace hash"
  }

  fn needs_fresh_thread(&self) -> bool {
    false
  }

  fn max_steps(&self) -> usize {
    600_000
  }

  fn stack_size(&self) -> usize {
    0x40000
  }

  fn generate(&self, rng: &mut Rng) -> CacheSc {
    let p = &self.profile;
    let shards = *rng.pick(&[1usize, 2, 2, 4]);
    let capacity = if p.reinsert_race { Some(*rng.pick(&[1u64, 1, 2, 2, 3])) } else if p.bounded { Some(*rng.pick(&[1u64, 1, 2, 3, 3, 4, 6, 8])) } else if rng.chance(1, 3) { Some(1000) } else { None };
    // capacity-sized policies (TinyLfu, Slru, Arc) need a finite capacity
    let policy = if capacity.is_none() { *rng.pick(&[PolicyKind::Null, PolicyKind::Null, PolicyKind::Lru, PolicyKind::Fifo, PolicyKind::Sieve, PolicyKind::Clock, PolicyKind::Random]) } else { *rng.pick(&PolicyKind::ALL[..8]) };
    let loader = if p.loader { *rng.pick(&[LoaderKind::Sync, LoaderKind::Sync, LoaderKind::Async]) } else { LoaderKind::None };
    let nclients = rng.range(2, 4);
    let expiry = p.expiry;
    let mut clients = vec![];
    for _ in 0..nclients {
      let is_async = p.async_clients && if p.reinsert_race || p.loader_race { rng.chance(1, 2) } else { rng.chance(1, 3) };
      let n = rng.range(2, 8);
      let ops = (0..n).map(|_| self.gen_op(rng, loader != LoaderKind::None, expiry)).collect();
      clients.push(Client { is_async, ops });
    }
    let total: u32 = clients.iter().map(|c| c.ops.len() as u32).sum();
    CacheSc {
      shards,
      capacity,
      policy,
      default_policy: rng.chance(1, 8),
      ttl_ns: if expiry && rng.chance(1, 2) { Some(*rng.pick(&[1_000u64, 5_000, 50_000])) } else { None },
      tti_ns: if expiry && rng.chance(1, 3) { Some(*rng.pick(&[2_000u64, 10_000])) } else { None },
      swr_ns: if expiry && loader != LoaderKind::None && rng.chance(1, 2) { Some(*rng.pick(&[1_000u64, 10_000])) } else { None },
      listener: p.listener,
      slow_listener_yields: if p.listener && rng.chance(1, 4) { rng.range(1, 3) as u8 } else { 0 },
      loader,
      loader_yields: rng.below(4) as u8,
      janitor_tick_ns: *rng.pick(&[100u64, 1_000, 1_000_000]),
      maintenance_chance: *rng.pick(&[1u32, 1, 2, 8]),
      introspection_maintenance: rng.chance(1, 2),
      timer_wheel_size: *rng.pick(&[1usize, 2, 4, 60]),
      timer_tick_ns: *rng.pick(&[100u64, 1_000, 10_000]),
      auto_time: !expiry,
      clients,
      knobs: {
        let mut k = Knobs::gen(rng, p.faults, 60 * (total + 8));
        k.max_steps = 600_000;
        k
      },
    }
  }

  fn begin(&self, sc: &CacheSc, record_trace: bool) -> RunCfg {
    HIST.with(|h| *h.borrow_mut() = Hist::default());
    NEXT_ID.with(|n| n.set(1));
    CUR.with(|c| *c.borrow_mut() = Some(Arc::new(sc.clone())));
    sc.knobs.run_cfg(record_trace)
  }

  fn body(&self) -> Arc<dyn Fn() + Send + Sync> {
    Arc::new(cache_main)
  }

  fn finish(&self, sc: &CacheSc, out: RunOut) -> Evaluated {
    CUR.with(|c| *c.borrow_mut() = None);
    let hist = HIST.with(|h| std::mem::take(&mut *h.borrow_mut()));
    let mut out = out;
    cache_reach(&hist, &mut out);
    if std::env::var("VERIF_DUMP").is_ok() {
      for e in &hist.evs {
        println!("  ev c{} [{}-{}] t={}..{} {:?} wrote={:?} -> {:?}", e.client, e.inv, e.ret, e.now_ns_inv, e.now_ns_ret, e.op, e.wrote, e.res);
      }
      for l in &hist.loads {
        println!("  load {:?}", l);
      }
      for n in &hist.notes {
        println!("  note {:?}", n);
      }
      if std::env::var("VERIF_DUMP_POLICY").is_ok() {
        for p in &hist.pol {
          println!("  pol {:?}", p);
        }
      }
      println!("  final={:?} failure={:?}", hist.fin, out.failure);
    }
    let violations = oracle::evaluate(sc, &hist, &out);
    let mut states: Vec<u64> = vec![];
    for e in &hist.evs {
      let kind = format!("{:?}", e.op);
      let kind = kind.split(|c: char| c == ' ' || c == '{').next().unwrap_or("").to_string();
      let r = match &e.res {
        Res::None => "none",
        Res::Val(..) => "val",
        Res::Bool(true) => "true",
        Res::Bool(false) => "false",
        Res::Many(v) if v.is_empty() => "empty",
        Res::Many(_) => "many",
        Res::Unit => "unit",
        Res::Metrics { .. } => "metrics",
        Res::Snap(v) if v.is_empty() => "snap-empty",
        Res::Snap(_) => "snap",
      };
      states.push(hash_str(&format!("{:?}|{}|{}|{}|{}", sc.policy, sc.shards, kind, r, sc.clients[e.client as usize].is_async)));
    }
    for n in &hist.notes {
      states.push(hash_str(&format!("note|{:?}|{:?}", sc.policy, n.reason)));
    }
    states.sort();
    states.dedup();
    let writes = hist.evs.iter().filter(|e| !e.wrote.is_empty()).count() + hist.loads.len();
    let hits = hist.evs.iter().filter(|e| matches!(e.res, Res::Val(..))).count();
    let nontrivial = out.stats.switches >= 3 && writes >= 2 && hits >= 1;
    Evaluated { out, violations, states, nontrivial }
  }

  fn shrink(&self, sc: &CacheSc) -> Vec<CacheSc> {
    let mut out = vec![];
    if sc.clients.len() > 1 {
      for i in 0..sc.clients.len() {
        let mut c = sc.clone();
        c.clients.remove(i);
        out.push(c);
      }
    }
    for (ci, cl) in sc.clients.iter().enumerate() {
      if cl.ops.len() > 1 {
        for oi in 0..cl.ops.len() {
          let mut c = sc.clone();
          c.clients[ci].ops.remove(oi);
          out.push(c);
        }
      }
      if cl.is_async {
        let mut c = sc.clone();
        c.clients[ci].is_async = false;
        out.push(c);
      }
    }
    if sc.shards > 1 {
      let mut c = sc.clone();
      c.shards = 1;
      out.push(c);
    }
    if sc.listener && sc.slow_listener_yields > 0 {
      let mut c = sc.clone();
      c.slow_listener_yields = 0;
      out.push(c);
    }
    if sc.loader_yields > 0 {
      let mut c = sc.clone();
      c.loader_yields = 0;
      out.push(c);
    }
    if sc.introspection_maintenance {
      let mut c = sc.clone();
      c.introspection_maintenance = false;
      out.push(c);
    }
    if sc.knobs.spurious_rate > 0 || sc.knobs.cas_weak > 0 || sc.knobs.park_return > 0 {
      let mut c = sc.clone();
      c.knobs.spurious_rate = 0;
      c.knobs.cas_weak = 0;
      c.knobs.park_return = 0;
      out.push(c);
    }
    if sc.knobs.mode != ModeSer::Uniform {
      let mut c = sc.clone();
      c.knobs.mode = ModeSer::Uniform;
      out.push(c);
    }
    out.retain(|c| !c.clients.is_empty() && c.clients.iter().all(|cl| !cl.ops.is_empty()));
    out
  }

  fn reseed(&self, sc: &CacheSc, seed: u64) -> CacheSc {
    let mut c = sc.clone();
    c.knobs.seed = seed;
    c
  }

  fn components(&self) -> Value {
    json!({
      "real": ["fibre_cache handles (sync + async), entry API, sharded store, janitor, notifier, loader, timer wheel, all policies, iterators, snapshot",
               "fibre::sync::{HybridMutex, HybridRwLock}, fibre::mpsc (event buffer, notifications) under the simulated primitives"],
      "stub": ["std::thread / park / std::sync::mpsc (janitor signal) -> fibre_verif_rt (simulated threads, virtual-time recv_timeout)",
               "cache epoch clock -> virtual clock", "parking_lot::Mutex -> shuttle Mutex",
               "ahash / rand -> deterministic shims seeded from the run", "rayon -> sequential shim (multi_* bodies run on the calling simulated thread)",
               "tokio::task::yield_now -> shuttle yield", "TaskSpawner -> shuttle::future::spawn"],
      "seams": ["CacheBuilder::{hasher, cache_policy_factory (recording proxy), eviction_listener, loader/async_loader, spawner, janitor_tick_interval, maintenance_chance, timer_wheel_size, timer_tick_duration}"]
    })
  }
}

/// History-derived reach counters of the cache families (reported under `probes`).
pub(crate) fn cache_reach(hist: &Hist, out: &mut RunOut) {
  let mut hit = |name: &'static str, n: u64| {
    if n > 0 {
      *out.probes.entry(name).or_insert(0) += n;
    }
  };
  for n in &hist.notes {
    hit(
      match n.reason {
        EvictionReason::Capacity => "reach_notified_capacity_eviction",
        EvictionReason::Expired => "reach_notified_expiry",
        EvictionReason::Invalidated => "reach_notified_invalidation",
      },
      1,
    );
  }
  hit("reach_loader_ran", hist.loads.len() as u64);
  for l in &hist.loads {
    let sharers = hist.evs.iter().filter(|e| matches!(e.op, COp::FetchWith { .. }) && e.res == Res::Val(l.id, 0)).count() as u64;
    if sharers >= 2 {
      hit("reach_load_shared_by_several_callers", 1);
    }
    // a caller that arrived while the loader function was running (between its begin and end)
    if hist.evs.iter().any(|e| matches!(e.op, COp::FetchWith { k } if k == l.key) && e.inv > l.begin && e.inv < l.end) {
      hit("reach_fetch_with_arrived_during_load", 1);
    }
    // a removal that overlapped the load
    if hist.evs.iter().any(|e| matches!(e.op, COp::Remove { .. } | COp::Invalidate { .. } | COp::Clear | COp::MultiRemove { .. }) && e.ret > l.begin && e.inv < l.end.max(l.begin + 1) + 8) {
      hit("reach_removal_near_load", 1);
    }
  }
  for e in &hist.evs {
    match (&e.op, &e.res) {
      (COp::Clear, _) => hit("reach_clear", 1),
      (COp::Get { .. } | COp::Fetch { .. } | COp::Peek { .. }, Res::None) => hit("reach_read_miss", 1),
      (COp::Get { .. } | COp::Fetch { .. } | COp::Peek { .. }, Res::Val(..)) => hit("reach_read_hit", 1),
      (COp::Compute { .. }, Res::Bool(true)) => hit("reach_compute_applied", 1),
      (COp::Advance { .. }, _) => hit("reach_clock_advanced", 1),
      _ => {}
    }
  }
  if let Some(f) = &hist.fin {
    hit("reach_maintenance_passes_to_fixpoint", f.maintenance_passes as u64);
    if !f.settled {
      hit("reach_not_settled", 1);
    }
  }
}
