//! Per-run context: fault rates, fault/probe counters, event sequence numbers, coins.

use std::cell::{Cell, RefCell};
use std::collections::BTreeMap;

#[derive(Clone, Copy, Debug, PartialEq, Eq, PartialOrd, Ord)]
pub enum FaultKind {
  /// F1 spurious unpark (park returns without a token)
  SpuriousUnpark,
  /// F2 spurious compare_exchange_weak failure
  CasWeakFail,
  /// F3 park_timeout expired (virtual time advanced to / beyond / short of the deadline)
  TimeoutFired,
  /// F3 clock jump between operations
  ClockJump,
  /// F4 future cancelled (dropped while pending)
  FutureCancelled,
  /// F4 future cancelled after it was woken and before it was re-polled
  FutureCancelledAfterWake,
  /// F5 handle dropped / closed while peers are blocked or pending
  HandleDropMidRun,
  /// F6 re-poll with a different waker / spurious poll without a wake
  WakerSwapped,
  SpuriousPoll,
  /// F8 slow party (listener / loader / factory / writer yielded)
  SlowParty,
  /// F11 stalled party: the thread is descheduled right after an atomic write (a publish, an
  /// unlock) for as long as the scheduler's policy allows (under PCT: until everybody else blocks)
  StalledAfterWrite,
  /// F9 writer I/O error injected
  IoError,
  ShortWrite,
  /// F9 crash: buffered data lost
  CrashRestart,
  /// F10 lossy buffer forced full
  BufferFull,
}

impl FaultKind {
  pub fn name(self) -> &'static str {
    match self {
      FaultKind::SpuriousUnpark => "F1_spurious_unpark",
      FaultKind::StalledAfterWrite => "F11_stalled_after_atomic_write",
      FaultKind::CasWeakFail => "F2_cas_weak_spurious_failure",
      FaultKind::TimeoutFired => "F3_timeout_fired",
      FaultKind::ClockJump => "F3_clock_jump",
      FaultKind::FutureCancelled => "F4_future_cancelled",
      FaultKind::FutureCancelledAfterWake => "F4_future_cancelled_after_wake",
      FaultKind::HandleDropMidRun => "F5_handle_drop_or_close_mid_run",
      FaultKind::WakerSwapped => "F6_waker_swapped",
      FaultKind::SpuriousPoll => "F6_spurious_poll",
      FaultKind::SlowParty => "F8_slow_party",
      FaultKind::IoError => "F9_io_error",
      FaultKind::ShortWrite => "F9_short_write",
      FaultKind::CrashRestart => "F9_crash_restart",
      FaultKind::BufferFull => "F10_buffer_forced_full",
    }
  }
}

/// Fault rates of the current run, in 1/65536 units.
#[derive(Clone, Copy, Debug, Default)]
pub struct FaultRates {
  /// probability that a `compare_exchange_weak` fails spuriously
  pub cas_weak: u32,
  /// probability that a facade `park()` that was woken without its token returns (spurious
  /// return) instead of parking again
  pub spurious_park_return: u32,
  /// add a scheduling point *after* every atomic write (store / swap / RMW / successful CAS) as
  /// well as before it: lets another thread run between "published" and the plain memory
  /// accesses that follow (a slot released before it was read, a flag set before the data)
  pub post_write_yield: bool,
  /// `hint::spin_loop()` is an ordinary scheduling point instead of a yield that hands the
  /// processor to somebody else: on real hardware a spin iteration gives no other thread a turn,
  /// so a window that a forced switch at every spin would always close stays open
  pub lazy_spin: bool,
  /// probability that a thread is descheduled right after an atomic write with Release ordering
  /// (store / swap / RMW / successful CAS: every unlock of the crate's own locks, publications): a yield, which under
  /// the PCT scheduler sends the thread to the back of the line until everybody else blocks - the
  /// "preempted between releasing the lock and the next statement" slow party
  pub post_write_stall: u32,
}

thread_local! {
  static RATES: Cell<FaultRates> = const { Cell::new(FaultRates { cas_weak: 0, spurious_park_return: 0, post_write_yield: false, lazy_spin: false, post_write_stall: 0 }) };
  static FAULTS: RefCell<BTreeMap<&'static str, u64>> = const { RefCell::new(BTreeMap::new()) };
  static PROBES: RefCell<BTreeMap<&'static str, u64>> = const { RefCell::new(BTreeMap::new()) };
  static SEQ: Cell<u64> = const { Cell::new(0) };
  static NO_PARK: Cell<u64> = const { Cell::new(0) };
  static AUTO_TIME: Cell<bool> = const { Cell::new(true) };
  static RUN_NONCE: Cell<u64> = const { Cell::new(0) };
  static NO_PARK_VIOLATIONS: Cell<u64> = const { Cell::new(0) };
  static RUN_EPOCH: Cell<u64> = const { Cell::new(0) };
}

/// Identifies the current run on this OS thread (changes at every `reset_run`): lets process-wide
/// statics of the code under test (e.g. a global container) be re-created per run.
pub fn run_epoch() -> u64 {
  RUN_EPOCH.with(|e| e.get())
}

/// Reset all per-run state. Called by the harness on the run's OS thread before the run starts.
pub fn reset_run(rates: FaultRates, start_ns: u64) {
  RATES.with(|r| r.set(rates));
  FAULTS.with(|f| f.borrow_mut().clear());
  PROBES.with(|f| f.borrow_mut().clear());
  SEQ.with(|s| s.set(0));
  NO_PARK.with(|s| s.set(0));
  NO_PARK_VIOLATIONS.with(|s| s.set(0));
  AUTO_TIME.with(|s| s.set(true));
  RUN_NONCE.with(|s| s.set(0));
  RUN_EPOCH.with(|e| e.set(e.get() + 1));
  crate::time::reset(start_ns);
}

thread_local! {
  static SWITCH_POINT: shuttle::sync::atomic::AtomicBool = const { shuttle::sync::atomic::AtomicBool::new(false) };
}

/// A neutral scheduling point after an atomic write (see `FaultRates::post_write_yield`).
#[inline]
pub fn after_write(order: std::sync::atomic::Ordering) {
  let r = RATES.with(|r| r.get());
  // (only after Release writes: the release of one of the crate's own locks, a publication)
  if r.post_write_stall != 0 && matches!(order, std::sync::atomic::Ordering::Release) && coin(r.post_write_stall) {
    fault_fired(FaultKind::StalledAfterWrite);
    shuttle::thread::yield_now();
  } else if r.post_write_yield {
    SWITCH_POINT.with(|a| {
      let _ = a.load(std::sync::atomic::Ordering::SeqCst);
    });
  }
}

/// `hint::spin_loop()`: a yield, or (knob `lazy_spin`) an ordinary scheduling point.
pub fn spin_hint() {
  if RATES.with(|r| r.get()).lazy_spin {
    probe("spin_as_ordinary_scheduling_point");
    SWITCH_POINT.with(|a| {
      let _ = a.load(std::sync::atomic::Ordering::SeqCst);
    });
  } else {
    shuttle::hint::spin_loop();
  }
}

pub fn rates() -> FaultRates {
  RATES.with(|r| r.get())
}

/// A fault actually fired.
pub fn fault_fired(kind: FaultKind) {
  FAULTS.with(|f| *f.borrow_mut().entry(kind.name()).or_insert(0) += 1);
}

/// "This rare condition was reached" probe.
pub fn probe(name: &'static str) {
  PROBES.with(|f| *f.borrow_mut().entry(name).or_insert(0) += 1);
}

pub fn probe_count(name: &str) -> u64 {
  PROBES.with(|f| f.borrow().get(name).copied().unwrap_or(0))
}

pub fn take_faults() -> BTreeMap<&'static str, u64> {
  FAULTS.with(|f| std::mem::take(&mut *f.borrow_mut()))
}

pub fn take_probes() -> BTreeMap<&'static str, u64> {
  PROBES.with(|f| std::mem::take(&mut *f.borrow_mut()))
}

/// Next global event sequence number (a plain counter: exactly one simulated thread runs at a
/// time, so stamps are a valid real-time order).
pub fn next_seq() -> u64 {
  SEQ.with(|s| {
    let v = s.get() + 1;
    s.set(v);
    v
  })
}

pub fn cur_seq() -> u64 {
  SEQ.with(|s| s.get())
}

/// A coin from the run's PRNG stream; `rate` in 1/65536. Never draws when `rate == 0`, so a
/// fault-free configuration consumes no randomness here.
pub fn coin(rate: u32) -> bool {
  if rate == 0 {
    return false;
  }
  (draw() & 0xffff) < rate as u64
}

/// One u64 from the run's PRNG stream (asks the scheduler; recorded in the schedule).
pub fn draw() -> u64 {
  use shuttle::rand::RngCore;
  shuttle::rand::thread_rng().next_u64()
}

pub fn below(n: u64) -> u64 {
  if n <= 1 {
    0
  } else {
    draw() % n
  }
}

// "must not park" sections: `try_*` operations and `publish` must never block. While a section
// is open on the *current simulated thread*, a facade park is recorded as a violation.
// (Tracked per simulated thread through a shuttle thread-local in chan.rs.)
pub(crate) fn note_no_park_violation() {
  if std::env::var("VERIF_BT").is_ok() {
    println!("NO-PARK VIOLATION\n{}", std::backtrace::Backtrace::force_capture());
  }
  NO_PARK_VIOLATIONS.with(|s| s.set(s.get() + 1));
}

pub fn no_park_violations() -> u64 {
  NO_PARK_VIOLATIONS.with(|s| s.get())
}

/// Whether waiting (janitor tick, sleep) lets virtual time pass by itself. Scenarios that place
/// the clock by hand (expiry exactly at / around a deadline) switch this off.
pub fn set_auto_time(on: bool) {
  AUTO_TIME.with(|s| s.set(on));
}

pub fn auto_time() -> bool {
  AUTO_TIME.with(|s| s.get())
}

/// A per-run counter for shims that must hand out *different but deterministic* values
/// (e.g. hasher states): 0, 1, 2, ... in the order requested within the run.
pub fn next_nonce() -> u64 {
  RUN_NONCE.with(|s| {
    let v = s.get();
    s.set(v + 1);
    v
  })
}
