//! IOC family (C18): 1-4 simulated threads register and resolve services in one container
//! (a shared `Container` instance, the process-global container, or a thread-owned
//! `LocalContainer`). Factories are instrumented (invocation ledger, seeded slowness) and may
//! resolve other services, so first resolutions of dependent singletons race, registrations
//! race with resolutions, and generated dependency graphs may contain cycles.

use crate::chan::conc::{Knobs, ModeSer};
use crate::core::batch::{hash_str, Evaluated, Family, Violation};
use crate::core::rng::Rng;
use crate::core::run::{forget_caught_panic, FailKind, RunCfg, RunOut};
use fibre_ioc::{global, Container, LocalContainer};
use fibre_verif_rt::ctx::next_seq;
use serde::{Deserialize, Serialize};
use serde_json::{json, Value};
use std::cell::RefCell;
use std::collections::{BTreeMap, BTreeSet};
use std::rc::Rc;
use std::sync::Arc;

/// Concrete service types (distinct `TypeId`s) and one trait-object key.
pub struct Svc<const N: usize> {
  pub reg: u32,
  pub serial: u32,
}
pub trait Tr: Send + Sync {
  fn ids(&self) -> (u32, u32);
}
impl<const N: usize> Tr for Svc<N> {
  fn ids(&self) -> (u32, u32) {
    (self.reg, self.serial)
  }
}
/// non-Send/Sync payload for the local container
pub trait LTr {
  fn ids(&self) -> (u32, u32);
}
impl<const N: usize> LTr for Svc<N> {
  fn ids(&self) -> (u32, u32) {
    (self.reg, self.serial)
  }
}

pub const NAMES: [Option<&str>; 3] = [None, Some("a"), Some("b")];

/// key = type index (0..=2 concrete, 3 = trait object) * 3 + name index
#[derive(Clone, Copy, Debug, Serialize, Deserialize, PartialEq, Eq, PartialOrd, Ord, Hash)]
pub struct Key(pub u8);

impl Key {
  fn ty(self) -> u8 {
    self.0 / 3
  }
  fn name(self) -> Option<&'static str> {
    NAMES[(self.0 % 3) as usize]
  }
}

#[derive(Clone, Copy, Debug, Serialize, Deserialize, PartialEq, Eq)]
pub enum RKind {
  Instance,
  Singleton,
  Transient,
}

#[derive(Clone, Debug, Serialize, Deserialize, PartialEq)]
pub enum IOp {
  Register { key: Key, kind: RKind, deps: Vec<Key>, slow: u8 },
  Resolve { key: Key },
}

#[derive(Clone, Copy, Debug, Serialize, Deserialize, PartialEq, Eq)]
pub enum Where {
  Instance,
  Global,
  Local,
}

#[derive(Clone, Debug, Serialize, Deserialize)]
pub struct IocSc {
  pub container: Where,
  pub threads: Vec<Vec<IOp>>,
  pub knobs: Knobs,
}

// ------------------------------------------------------------------------------------------
// History

#[derive(Clone, Debug)]
pub struct RegEv {
  pub reg: u32,
  pub key: Key,
  pub kind: RKind,
  pub deps: Vec<Key>,
  pub inv: u64,
  pub ret: u64,
}

#[derive(Clone, Debug)]
pub struct FacEv {
  pub reg: u32,
  pub serial: u32,
  pub begin: u64,
  pub end: Option<u64>,
}

#[derive(Clone, Debug, PartialEq)]
pub enum Outcome {
  Missing,
  Got { reg: u32, serial: u32 },
  Panicked(String),
}

#[derive(Clone, Debug)]
pub struct ResEv {
  pub thread: u8,
  pub key: Key,
  pub inv: u64,
  pub ret: u64,
  pub outcome: Outcome,
  /// resolved from inside a factory
  pub nested: bool,
}

#[derive(Default)]
pub struct IHist {
  pub regs: Vec<RegEv>,
  pub facs: Vec<FacEv>,
  pub ress: Vec<ResEv>,
}

thread_local! {
  static H: RefCell<IHist> = RefCell::new(IHist::default());
  static NEXT_REG: std::cell::Cell<u32> = const { std::cell::Cell::new(1) };
  static NEXT_SERIAL: std::cell::Cell<u32> = const { std::cell::Cell::new(1) };
  static CUR: RefCell<Option<Arc<IocSc>>> = const { RefCell::new(None) };
}

shuttle::thread_local! {
  static THREAD_IX: std::cell::Cell<u8> = std::cell::Cell::new(0);
  static DEPTH: std::cell::Cell<u32> = std::cell::Cell::new(0);
}

fn fresh(cellf: &'static std::thread::LocalKey<std::cell::Cell<u32>>) -> u32 {
  cellf.with(|n| {
    let v = n.get();
    n.set(v + 1);
    v
  })
}

/// How a factory reaches "its" container.
#[derive(Clone)]
enum Handle {
  Instance(std::sync::Weak<Container>),
  Global,
}

impl Handle {
  fn with<R>(&self, f: impl FnOnce(&Container) -> R) -> Option<R> {
    match self {
      Handle::Instance(w) => w.upgrade().map(|c| f(&c)),
      Handle::Global => Some(f(global())),
    }
  }
}

/// Resolve `key` (recorded), propagating a panic of the resolution.
fn resolve_in(c: &Container, key: Key) -> Outcome {
  let got: Option<(u32, u32)> = match key.ty() {
    0 => c.get::<Svc<0>>(key.name()).map(|a| (a.reg, a.serial)),
    1 => c.get::<Svc<1>>(key.name()).map(|a| (a.reg, a.serial)),
    2 => c.get::<Svc<2>>(key.name()).map(|a| (a.reg, a.serial)),
    _ => c.get::<dyn Tr>(key.name()).map(|a| a.ids()),
  };
  match got {
    Some((reg, serial)) => Outcome::Got { reg, serial },
    None => Outcome::Missing,
  }
}

fn recorded_resolve(key: Key, nested: bool, f: impl FnOnce() -> Outcome) -> Outcome {
  let inv = next_seq();
  let thread = THREAD_IX.with(|t| t.get());
  let r = std::panic::catch_unwind(std::panic::AssertUnwindSafe(f));
  let ret = next_seq();
  let (outcome, payload) = match r {
    Ok(o) => (o, None),
    Err(p) => {
      let msg = if let Some(s) = p.downcast_ref::<&str>() {
        s.to_string()
      } else if let Some(s) = p.downcast_ref::<String>() {
        s.clone()
      } else {
        // not a panic of the code under test: the runtime is cancelling this simulated thread
        // (teardown after a deadlock); it must keep unwinding
        std::panic::resume_unwind(p);
      };
      (Outcome::Panicked(msg), Some(p))
    }
  };
  H.with(|h| h.borrow_mut().ress.push(ResEv { thread, key, inv, ret, outcome: outcome.clone(), nested }));
  if let Some(p) = payload {
    if nested {
      // a factory's dependency failed: the factory fails the same way
      std::panic::resume_unwind(p);
    }
    forget_caught_panic();
  }
  outcome
}

/// Body of an instrumented factory: ledger entry, seeded slowness, dependencies.
fn factory_body(reg: u32, deps: &[Key], slow: u8, h: &Handle) -> u32 {
  let serial = fresh(&NEXT_SERIAL);
  let begin = next_seq();
  let ix = H.with(|hh| {
    let mut hh = hh.borrow_mut();
    hh.facs.push(FacEv { reg, serial, begin, end: None });
    hh.facs.len() - 1
  });
  for _ in 0..slow {
    shuttle::thread::yield_now();
  }
  for d in deps {
    let d = *d;
    let hc = h.clone();
    recorded_resolve(d, true, move || hc.with(|c| resolve_in(c, d)).unwrap_or(Outcome::Missing));
  }
  let end = next_seq();
  H.with(|hh| hh.borrow_mut().facs[ix].end = Some(end));
  serial
}

fn register(c: &Container, h: &Handle, key: Key, kind: RKind, deps: &[Key], slow: u8) {
  let reg = fresh(&NEXT_REG);
  let inv = next_seq();
  let name = key.name();
  macro_rules! concrete {
    ($n:literal) => {{
      let (h2, deps2) = (h.clone(), deps.to_vec());
      match (kind, name) {
        (RKind::Instance, None) => c.add_instance(Svc::<$n> { reg, serial: 0 }),
        (RKind::Instance, Some(n)) => c.add_instance_with_name(n, Svc::<$n> { reg, serial: 0 }),
        (RKind::Singleton, None) => c.add_singleton(move || Svc::<$n> { reg, serial: factory_body(reg, &deps2, slow, &h2) }),
        (RKind::Singleton, Some(n)) => c.add_singleton_with_name(n, move || Svc::<$n> { reg, serial: factory_body(reg, &deps2, slow, &h2) }),
        (RKind::Transient, None) => c.add_transient(move || Svc::<$n> { reg, serial: factory_body(reg, &deps2, slow, &h2) }),
        (RKind::Transient, Some(n)) => c.add_transient_with_name(n, move || Svc::<$n> { reg, serial: factory_body(reg, &deps2, slow, &h2) }),
      }
    }};
  }
  match key.ty() {
    0 => concrete!(0),
    1 => concrete!(1),
    2 => concrete!(2),
    _ => {
      // trait-object keys only have singleton registration
      let (h2, deps2) = (h.clone(), deps.to_vec());
      let f = move || -> Arc<dyn Tr> { Arc::new(Svc::<9> { reg, serial: factory_body(reg, &deps2, slow, &h2) }) };
      match name {
        None => c.add_singleton_trait::<dyn Tr>(f),
        Some(n) => c.add_singleton_trait_with_name::<dyn Tr>(n, f),
      }
    }
  }
  let ret = next_seq();
  let kind = if key.ty() == 3 { RKind::Singleton } else { kind };
  H.with(|hh| hh.borrow_mut().regs.push(RegEv { reg, key, kind, deps: deps.to_vec(), inv, ret }));
}

// ---- local container (one simulated thread) ----------------------------------------------

type LocalRc = Rc<RefCell<LocalContainer>>;

fn local_resolve(c: &LocalContainer, key: Key) -> Outcome {
  let got: Option<(u32, u32)> = match key.ty() {
    0 => c.get::<Svc<0>>(key.name()).map(|a| (a.reg, a.serial)),
    1 => c.get::<Svc<1>>(key.name()).map(|a| (a.reg, a.serial)),
    2 => c.get::<Svc<2>>(key.name()).map(|a| (a.reg, a.serial)),
    _ => c.get::<dyn LTr>(key.name()).map(|a| a.ids()),
  };
  match got {
    Some((reg, serial)) => Outcome::Got { reg, serial },
    None => Outcome::Missing,
  }
}

fn local_factory_body(reg: u32, deps: &[Key], w: &std::rc::Weak<RefCell<LocalContainer>>) -> u32 {
  let serial = fresh(&NEXT_SERIAL);
  let begin = next_seq();
  let ix = H.with(|hh| {
    let mut hh = hh.borrow_mut();
    hh.facs.push(FacEv { reg, serial, begin, end: None });
    hh.facs.len() - 1
  });
  for d in deps {
    let d = *d;
    let w2 = w.clone();
    recorded_resolve(d, true, move || match w2.upgrade() {
      Some(rc) => local_resolve(&rc.borrow(), d),
      None => Outcome::Missing,
    });
  }
  let end = next_seq();
  H.with(|hh| hh.borrow_mut().facs[ix].end = Some(end));
  serial
}

fn local_register(rc: &LocalRc, key: Key, kind: RKind, deps: &[Key]) {
  let reg = fresh(&NEXT_REG);
  let inv = next_seq();
  let name = key.name();
  let w = Rc::downgrade(rc);
  let mut c = rc.borrow_mut();
  // the local container has no add_instance: an instance is a singleton whose factory is trivial
  let kind = if kind == RKind::Instance { RKind::Singleton } else { kind };
  macro_rules! concrete {
    ($n:literal) => {{
      let deps2 = deps.to_vec();
      match (kind, name) {
        (RKind::Transient, None) => c.add_transient(move || Svc::<$n> { reg, serial: local_factory_body(reg, &deps2, &w) }),
        (RKind::Transient, Some(n)) => c.add_transient_with_name(n, move || Svc::<$n> { reg, serial: local_factory_body(reg, &deps2, &w) }),
        (_, None) => c.add_singleton(move || Svc::<$n> { reg, serial: local_factory_body(reg, &deps2, &w) }),
        (_, Some(n)) => c.add_singleton_with_name(n, move || Svc::<$n> { reg, serial: local_factory_body(reg, &deps2, &w) }),
      }
    }};
  }
  match key.ty() {
    0 => concrete!(0),
    1 => concrete!(1),
    2 => concrete!(2),
    _ => {
      let deps2 = deps.to_vec();
      let f = move || -> Rc<dyn LTr> { Rc::new(Svc::<9> { reg, serial: local_factory_body(reg, &deps2, &w) }) };
      match name {
        None => c.add_singleton_trait::<dyn LTr>(f),
        Some(n) => c.add_singleton_trait_with_name::<dyn LTr>(n, f),
      }
    }
  }
  drop(c);
  let ret = next_seq();
  let kind = if key.ty() == 3 { RKind::Singleton } else { kind };
  H.with(|hh| hh.borrow_mut().regs.push(RegEv { reg, key, kind, deps: deps.to_vec(), inv, ret }));
}

fn ioc_main() {
  let sc: Arc<IocSc> = CUR.with(|c| c.borrow().clone()).expect("no current scenario");
  match sc.container {
    Where::Local => {
      // the local container is not Send: everything happens on this simulated thread
      let rc: LocalRc = Rc::new(RefCell::new(LocalContainer::new()));
      for op in sc.threads.iter().flatten() {
        match op {
          IOp::Register { key, kind, deps, .. } => local_register(&rc, *key, *kind, deps),
          IOp::Resolve { key } => {
            let (k, rc2) = (*key, rc.clone());
            recorded_resolve(k, false, move || local_resolve(&rc2.borrow(), k));
          }
        }
      }
    }
    w => {
      let inst = Arc::new(Container::new());
      let handle = if w == Where::Global { Handle::Global } else { Handle::Instance(Arc::downgrade(&inst)) };
      let mut joins = vec![];
      for (i, ops) in sc.threads.iter().enumerate() {
        let (ops, handle, inst) = (ops.clone(), handle.clone(), inst.clone());
        joins.push(shuttle::thread::spawn(move || {
          THREAD_IX.with(|t| t.set(i as u8 + 1));
          let _keep = inst;
          for op in &ops {
            match op {
              IOp::Register { key, kind, deps, slow } => {
                handle.with(|c| register(c, &handle, *key, *kind, deps, *slow));
              }
              IOp::Resolve { key } => {
                let (k, h2) = (*key, handle.clone());
                recorded_resolve(k, false, move || h2.with(|c| resolve_in(c, k)).unwrap_or(Outcome::Missing));
              }
            }
          }
        }));
      }
      for j in joins {
        j.join().unwrap();
      }
    }
  }
}

// ------------------------------------------------------------------------------------------
// Oracle

/// Is there a dependency cycle reachable from `key`, over every registration (any version) of
/// the keys involved? (A resolution may only panic with "Circular dependency" if so.)
fn cycle_reachable(regs: &[RegEv], key: Key) -> bool {
  fn dfs(regs: &[RegEv], k: Key, stack: &mut Vec<Key>, seen: &mut BTreeSet<Key>) -> bool {
    if stack.contains(&k) {
      return true;
    }
    if !seen.insert(k) {
      return false;
    }
    stack.push(k);
    for r in regs.iter().filter(|r| r.key == k) {
      for d in &r.deps {
        if dfs(regs, *d, stack, seen) {
          return true;
        }
      }
    }
    stack.pop();
    false
  }
  dfs(regs, key, &mut vec![], &mut BTreeSet::new())
}

pub fn evaluate(sc: &IocSc, h: &IHist, out: &RunOut) -> Vec<Violation> {
  let mk = |class: &str, extra: &[(&str, String)], detail: String| {
    let mut facets = BTreeMap::new();
    facets.insert("container".to_string(), format!("{:?}", sc.container));
    for (k, v) in extra {
      facets.insert(k.to_string(), v.clone());
    }
    Violation { property: "C18".into(), class: class.into(), facets, detail }
  };
  let mut vs = vec![];
  let any_cycle = h.regs.iter().any(|r| cycle_reachable(&h.regs, r.key)) || sc.threads.iter().flatten().any(|op| matches!(op, IOp::Register { .. })) && declared_cycle(sc);
  if let Some(f) = &out.failure {
    let (class, extra) = match f.kind {
      FailKind::Deadlock if any_cycle => ("dependency_cycle_hangs", vec![("threads", (sc.threads.len() > 1).to_string())]),
      FailKind::Deadlock => ("deadlock", vec![]),
      FailKind::StepBound => ("step_bound", vec![]),
      FailKind::Panic => ("panic", vec![("where", f.location.clone())]),
    };
    vs.push(mk(class, &extra, format!("{} at {}", f.message, f.location)));
    return vs;
  }
  let reg_of = |id: u32| h.regs.iter().find(|r| r.reg == id);
  // 1. singletons: the factory completes at most once; every resolution yields that instance
  for r in h.regs.iter().filter(|r| r.kind == RKind::Singleton) {
    let done: Vec<&FacEv> = h.facs.iter().filter(|f| f.reg == r.reg && f.end.is_some()).collect();
    if done.len() > 1 {
      vs.push(mk("singleton_factory_ran_twice", &[], format!("registration {} of key {:?}: the factory completed {} times ({:?})", r.reg, r.key, done.len(), done)));
    }
    let serials: BTreeSet<u32> = h.ress.iter().filter_map(|x| match x.outcome { Outcome::Got { reg, serial } if reg == r.reg => Some(serial), _ => None }).collect();
    if serials.len() > 1 {
      vs.push(mk("singleton_instances_differ", &[], format!("registration {} of key {:?} was resolved to {} different instances {:?}", r.reg, r.key, serials.len(), serials)));
    }
  }
  // 2. transients: fresh instance per resolution
  for r in h.regs.iter().filter(|r| r.kind == RKind::Transient) {
    let mut seen = BTreeSet::new();
    for x in &h.ress {
      if let Outcome::Got { reg, serial } = x.outcome {
        if reg == r.reg && !seen.insert(serial) {
          vs.push(mk("transient_instance_shared", &[], format!("transient registration {} of key {:?}: instance {serial} was handed to two resolutions", r.reg, r.key)));
        }
      }
    }
  }
  // 3. per resolution: key isolation, presence, latest registration
  for x in &h.ress {
    match &x.outcome {
      Outcome::Got { reg, .. } => match reg_of(*reg) {
        None => vs.push(mk("resolved_unknown_registration", &[], format!("resolve({:?}) returned an instance of registration {reg}, which never happened", x.key))),
        Some(r) => {
          if r.key != x.key {
            vs.push(mk("keys_alias", &[], format!("resolve({:?}) returned an instance registered under {:?} (registration {})", x.key, r.key, r.reg)));
          } else if r.inv > x.ret {
            vs.push(mk("resolved_future_registration", &[], format!("resolve({:?}) [{}..{}] returned registration {} that began at {}", x.key, x.inv, x.ret, r.reg, r.inv)));
          } else if let Some(newer) = h.regs.iter().find(|n| n.key == x.key && n.reg != r.reg && r.ret < n.inv && n.ret < x.inv) {
            vs.push(mk("stale_registration_resolved", &[], format!("resolve({:?}) [{}..{}] returned registration {} although registration {} of the same key completed before the resolution began", x.key, x.inv, x.ret, r.reg, newer.reg)));
          }
        }
      },
      Outcome::Missing => {
        if let Some(r) = h.regs.iter().find(|r| r.key == x.key && r.ret < x.inv) {
          vs.push(mk("registered_key_resolved_none", &[], format!("resolve({:?}) [{}..{}] found nothing although registration {} completed at {}", x.key, x.inv, x.ret, r.reg, r.ret)));
        }
      }
      Outcome::Panicked(msg) => {
        if !msg.contains("Circular dependency") {
          vs.push(mk("resolution_panicked", &[], format!("resolve({:?}) panicked: {msg}", x.key)));
        } else if !cycle_reachable(&h.regs, x.key) {
          vs.push(mk("spurious_cycle_report", &[], format!("resolve({:?}) reported a circular dependency but no cycle is reachable from that key in the registered dependency graph", x.key)));
        }
      }
    }
  }
  vs
}

/// whether the scenario's registrations (as generated) contain a cycle at all
fn declared_cycle(sc: &IocSc) -> bool {
  let regs: Vec<RegEv> = sc
    .threads
    .iter()
    .flatten()
    .filter_map(|op| match op {
      IOp::Register { key, kind, deps, .. } => Some(RegEv { reg: 0, key: *key, kind: *kind, deps: deps.clone(), inv: 0, ret: 0 }),
      _ => None,
    })
    .collect();
  regs.iter().any(|r| cycle_reachable(&regs, r.key))
}

// ------------------------------------------------------------------------------------------

pub struct IocFamily {
  pub container: Where,
  pub faults: bool,
  /// allow generated dependency cycles
  pub cycles: bool,
}

impl Family for IocFamily {
  type Sc = IocSc;

  fn name(&self) -> &'static str {
    "IOC"
  }

  fn rule(&self) -> &'static str {
    "one case = one container (shared instance / global / thread-owned local) with 1-4 simulated threads x <=6 operations (register instance / singleton / transient / trait singleton under typed and named keys, with factories that yield 0-3 times and resolve 0-2 other keys; resolve) under one seeded schedule and fault plan; non-trivial = >=1 singleton factory run and >=2 resolutions that found a service; distinct = distinct scheduler decision-trace hash"
  }

  fn needs_fresh_thread(&self) -> bool {
    false
  }

  fn max_steps(&self) -> usize {
    60_000
  }

  fn generate(&self, rng: &mut Rng) -> IocSc {
    // few keys so that registrations and resolutions collide; types x names both vary
    let pool: Vec<Key> = {
      let mut p: Vec<Key> = (0..12).map(Key).collect();
      let n = rng.range(2, 5) as usize;
      let mut out = vec![];
      for _ in 0..n {
        let i = rng.below(p.len() as u64) as usize;
        out.push(p.remove(i));
      }
      out
    };
    let nthreads = if self.container == Where::Local { 1 } else { rng.range(1, 4) as usize };
    let mut threads: Vec<Vec<IOp>> = vec![];
    // a dependency order that keeps the graph acyclic unless cycles are wanted
    let want_cycle = self.cycles && rng.chance(1, 3);
    for t in 0..nthreads {
      let mut ops = vec![];
      for _ in 0..rng.range(2, 6) {
        let key = *rng.pick(&pool);
        if rng.chance(2, 5) || (t == 0 && ops.is_empty()) {
          let kind = *rng.pick(&[RKind::Singleton, RKind::Singleton, RKind::Singleton, RKind::Transient, RKind::Instance]);
          let mut deps = vec![];
          if kind != RKind::Instance {
            for _ in 0..rng.below(3) {
              let d = *rng.pick(&pool);
              let pos = |k: Key| pool.iter().position(|x| *x == k).unwrap();
              if want_cycle || pos(d) > pos(key) {
                deps.push(d);
              }
            }
          }
          ops.push(IOp::Register { key, kind, deps, slow: rng.below(4) as u8 });
        } else {
          ops.push(IOp::Resolve { key });
        }
      }
      threads.push(ops);
    }
    let total: u32 = threads.iter().map(|t| t.len() as u32).sum();
    let mut knobs = Knobs::gen(rng, self.faults, 40 * (total + 4));
    knobs.max_steps = 60_000;
    IocSc { container: self.container, threads, knobs }
  }

  fn begin(&self, sc: &IocSc, record_trace: bool) -> RunCfg {
    H.with(|h| *h.borrow_mut() = IHist::default());
    NEXT_REG.with(|n| n.set(1));
    NEXT_SERIAL.with(|n| n.set(1));
    CUR.with(|c| *c.borrow_mut() = Some(Arc::new(sc.clone())));
    sc.knobs.run_cfg(record_trace)
  }

  fn body(&self) -> Arc<dyn Fn() + Send + Sync> {
    Arc::new(ioc_main)
  }

  fn finish(&self, sc: &IocSc, out: RunOut) -> Evaluated {
    CUR.with(|c| *c.borrow_mut() = None);
    let h = H.with(|h| std::mem::take(&mut *h.borrow_mut()));
    if std::env::var("VERIF_DUMP").is_ok() {
      for r in &h.regs {
        println!("  reg {r:?}");
      }
      for f in &h.facs {
        println!("  factory {f:?}");
      }
      for x in &h.ress {
        println!("  resolve {x:?}");
      }
      println!("  failure={:?}", out.failure);
    }
    let violations = evaluate(sc, &h, &out);
    let mut states: Vec<u64> = vec![];
    for x in &h.ress {
      let o = match &x.outcome {
        Outcome::Missing => "missing",
        Outcome::Got { .. } => "got",
        Outcome::Panicked(_) => "cycle",
      };
      let kind = match &x.outcome {
        Outcome::Got { reg, .. } => h.regs.iter().find(|r| r.reg == *reg).map(|r| format!("{:?}", r.kind)).unwrap_or_default(),
        _ => String::new(),
      };
      states.push(hash_str(&format!("{:?}|{}|{o}|{kind}|{}|{}", sc.container, x.key.ty(), x.key.name().is_some(), x.nested)));
    }
    states.sort();
    states.dedup();
    let singleton_runs = h.facs.iter().filter(|f| h.regs.iter().any(|r| r.reg == f.reg && r.kind == RKind::Singleton)).count();
    let found = h.ress.iter().filter(|x| matches!(x.outcome, Outcome::Got { .. })).count();
    Evaluated { out, violations, states, nontrivial: singleton_runs >= 1 && found >= 2 }
  }

  fn shrink(&self, sc: &IocSc) -> Vec<IocSc> {
    let mut out = vec![];
    if sc.threads.len() > 1 {
      for i in 0..sc.threads.len() {
        let mut c = sc.clone();
        c.threads.remove(i);
        out.push(c);
      }
    }
    for (ti, t) in sc.threads.iter().enumerate() {
      if t.len() > 1 {
        for oi in 0..t.len() {
          let mut c = sc.clone();
          c.threads[ti].remove(oi);
          out.push(c);
        }
      }
      for (oi, op) in t.iter().enumerate() {
        if let IOp::Register { key, kind, deps, slow } = op {
          for di in 0..deps.len() {
            let mut c = sc.clone();
            let mut d2 = deps.clone();
            d2.remove(di);
            c.threads[ti][oi] = IOp::Register { key: *key, kind: *kind, deps: d2, slow: *slow };
            out.push(c);
          }
          if *slow > 0 {
            let mut c = sc.clone();
            c.threads[ti][oi] = IOp::Register { key: *key, kind: *kind, deps: deps.clone(), slow: 0 };
            out.push(c);
          }
        }
      }
    }
    let k = &sc.knobs;
    if k.spurious_rate > 0 || k.cas_weak > 0 || k.park_return > 0 {
      let mut c = sc.clone();
      c.knobs.spurious_rate = 0;
      c.knobs.cas_weak = 0;
      c.knobs.park_return = 0;
      out.push(c);
    }
    if k.mode != ModeSer::Uniform {
      let mut c = sc.clone();
      c.knobs.mode = ModeSer::Uniform;
      out.push(c);
    }
    out.retain(|c| !c.threads.is_empty() && c.threads.iter().all(|t| !t.is_empty()));
    out
  }

  fn reseed(&self, sc: &IocSc, seed: u64) -> IocSc {
    let mut c = sc.clone();
    c.knobs.seed = seed;
    c
  }

  fn components(&self) -> Value {
    json!({
      "real": ["fibre_ioc Container / global() / LocalContainer, InjectionKey, Provider, ResolutionGuard (thread-local resolution stack per simulated thread)",
               "once_cell 1.21.4 sync::OnceCell algorithm (imp_std.rs, copied) on simulated atomics and park/unpark",
               "dashmap 5.5.3 shard lock algorithm (lock.rs, copied) on simulated atomics"],
      "stub": ["dashmap's map: 4 shards of std HashMap behind the real lock algorithm (insert / get only)",
               "parking_lot_core park/unpark_one/unpark_all -> address-keyed queue of simulated threads under a simulated bucket lock; SpinWait -> 2 yields",
               "once_cell::sync::Lazy (global container) -> re-created per simulated run", "once_cell::unsync -> the real crate"],
    })
  }
}
