//! LOG-PIPE family (C19, and the encoder half of C20 in situ): the real logging pipeline
//! (configuration processing, per-appender filters, event processor, `log` bridge, tracing
//! layer, per-appender bounded channels, writer threads, shutdown guard) built from a generated
//! YAML configuration by hook H7, with 1-3 emitting simulated threads, one consumer thread per
//! custom stream, in-memory (optionally slow) sinks behind the byte appenders, and shutdown /
//! guard drop at a seeded moment.

use crate::chan::conc::{Knobs, ModeSer};
use crate::core::batch::{hash_str, Evaluated, Family, Violation};
use crate::core::rng::Rng;
use crate::core::run::{FailKind, RunCfg, RunOut};
use fibre_verif_rt::ctx::{self, next_seq, FaultKind};
use serde::{Deserialize, Serialize};
use serde_json::{json, Value};
use std::cell::RefCell;
use std::collections::{BTreeMap, BTreeSet};
use std::io::Write;
use std::sync::{Arc, Mutex, OnceLock};
use std::time::Duration;
use tracing_core::{callsite, field, metadata::Kind, subscriber::Interest, Level, Metadata};

pub const TARGETS: [&str; 8] = ["app", "app::db", "app::db::q", "app::dbx", "apple", "apple::m", "other", "ap"];
pub const LOGGERS: [&str; 6] = ["app", "app::db", "app::db::q", "apple", "other", "ap"];
/// 0 = off, 1 = error ... 5 = trace
pub const LEVEL_NAMES: [&str; 6] = ["off", "error", "warn", "info", "debug", "trace"];

#[derive(Clone, Debug, Serialize, Deserialize, PartialEq)]
pub struct LoggerSc {
  /// "root" or one of LOGGERS
  pub name: String,
  pub level: u8,
  pub appenders: Vec<u8>,
  pub additive: bool,
}

#[derive(Clone, Copy, Debug, Serialize, Deserialize, PartialEq)]
pub enum Enc {
  Json,
  JsonFlat,
  PatternDefault,
  /// "%p|%t|%m%n"
  PatternPlain,
  /// a pattern generated from this number (see `pattern_of`): 2-7 segments over the supported
  /// directives (%d %d{..} %p %l %t %m %T %X %X{k} %n %%; unknown letters are rejected by the configuration check), each with an optional
  /// left / right padding width, and literals; exactly one %m
  PatternGen(u32),
}

/// The pattern string of `Enc::PatternGen(seed)`. Literals avoid '#' (the record markers), '"' and
/// '\\' (the pattern is embedded in a double-quoted YAML scalar).
pub fn pattern_of(seed: u32) -> String {
  let mut rng = Rng::new(0x9a77e2 ^ seed as u64);
  let n = rng.range(1, 6) as usize;
  let at = rng.below(n as u64 + 1) as usize;
  let pad = |rng: &mut Rng| -> String {
    if rng.chance(1, 2) {
      String::new()
    } else {
      format!("{}{}", if rng.chance(1, 2) { "-" } else { "" }, *rng.pick(&[1u32, 3, 5, 8, 10, 12, 16, 20, 24, 40]))
    }
  };
  let mut out = String::new();
  for i in 0..=n {
    if i == at {
      out.push_str(&format!("%{}m", pad(&mut rng)));
      continue;
    }
    match rng.below(13) {
      0 => out.push_str(*rng.pick(&[" ", "|", "[", "]", " - ", ":", "é", "=", "<>", "日本"])),
      1 => out.push_str("%%"),
      2 => out.push_str(&format!("%{}d", pad(&mut rng))),
      3 => out.push_str(&format!("%{}d{{%H:%M:%S}}", pad(&mut rng))),
      4 | 5 => out.push_str(&format!("%{}p", pad(&mut rng))),
      6 => out.push_str(&format!("%{}l", pad(&mut rng))),
      7 | 8 => out.push_str(&format!("%{}t", pad(&mut rng))),
      9 => out.push_str(&format!("%{}T", pad(&mut rng))),
      10 => out.push_str(&format!("%{}X", pad(&mut rng))),
      11 => out.push_str(&format!("%{}X{{k}}", pad(&mut rng))),
      _ => out.push_str("%n"),
    }
  }
  out
}

#[derive(Clone, Debug, Serialize, Deserialize, PartialEq)]
pub struct AppenderSc {
  /// custom stream (LogEvent) or byte appender (formatted bytes to a sink)
  pub custom: bool,
  pub capacity: usize,
  pub block: bool,
  pub enc: Enc,
  /// byte sink: yields per write
  pub slow: u8,
  /// byte sink: virtual milliseconds every write takes (a slow disk / pipe)
  #[serde(default)]
  pub slow_ms: u16,
}

#[derive(Clone, Debug, Serialize, Deserialize, PartialEq)]
pub struct Emit {
  pub via_log: bool,
  pub target: u8,
  /// 1 = error ... 5 = trace
  pub level: u8,
  pub msg: String,
}

#[derive(Clone, Copy, Debug, Serialize, Deserialize, PartialEq)]
pub enum Stop {
  /// shutdown(timeout) after all emitters were joined
  ShutdownAfterJoin,
  /// drop the guard after all emitters were joined
  DropAfterJoin,
  /// shutdown after `n` yields of the main thread, emitters may still be running
  ShutdownAfterYields(u16),
  DropAfterYields(u16),
}

#[derive(Clone, Debug, Serialize, Deserialize)]
pub struct LogSc {
  pub loggers: Vec<LoggerSc>,
  pub appenders: Vec<AppenderSc>,
  pub emitters: Vec<Vec<Emit>>,
  pub stop: Stop,
  pub knobs: Knobs,
}

impl LogSc {
  pub fn yaml(&self) -> String {
    let mut y = String::from("version: 1\nappenders:\n");
    for (i, a) in self.appenders.iter().enumerate() {
      y.push_str(&format!("  a{i}:\n"));
      let overflow = if a.block { "block" } else { "drop" };
      if a.custom {
        y.push_str(&format!("    kind: custom\n    buffer_size: {}\n    overflow: {overflow}\n", a.capacity));
      } else {
        y.push_str(&format!("    kind: file\n    path: \"/nonexistent/a{i}.log\"\n    channel_capacity: {}\n    overflow: {overflow}\n", a.capacity));
        match a.enc {
          Enc::Json => y.push_str("    encoder:\n      kind: json_lines\n"),
          Enc::JsonFlat => y.push_str("    encoder:\n      kind: json_lines\n      flatten_fields: true\n"),
          Enc::PatternDefault => y.push_str("    encoder:\n      kind: pattern\n"),
          Enc::PatternPlain => y.push_str("    encoder:\n      kind: pattern\n      pattern: \"%p|%t|%m%n\"\n"),
          Enc::PatternGen(seed) => y.push_str(&format!("    encoder:\n      kind: pattern\n      pattern: \"{}\"\n", pattern_of(seed))),
        }
      }
    }
    y.push_str("loggers:\n");
    for l in &self.loggers {
      let apps: Vec<String> = l.appenders.iter().map(|a| format!("a{a}")).collect();
      y.push_str(&format!("  \"{}\":\n    level: {}\n    appenders: [{}]\n    additive: {}\n", l.name, LEVEL_NAMES[l.level as usize], apps.join(", "), l.additive));
    }
    y
  }
}

// ------------------------------------------------------------------------------------------
// tracing callsites for (target, level), built once per process

struct Cs {
  meta: OnceLock<Metadata<'static>>,
}
impl callsite::Callsite for Cs {
  fn set_interest(&self, _: Interest) {}
  fn metadata(&self) -> &Metadata<'_> {
    self.meta.get().expect("callsite metadata")
  }
}

fn level_of(l: u8) -> Level {
  match l {
    1 => Level::ERROR,
    2 => Level::WARN,
    3 => Level::INFO,
    4 => Level::DEBUG,
    _ => Level::TRACE,
  }
}

fn callsite_meta(target: u8, level: u8) -> &'static Metadata<'static> {
  static ALL: OnceLock<Vec<&'static Cs>> = OnceLock::new();
  let all = ALL.get_or_init(|| {
    let mut v = vec![];
    for t in 0..TARGETS.len() {
      for l in 1..=5u8 {
        let cs: &'static Cs = Box::leak(Box::new(Cs { meta: OnceLock::new() }));
        let meta = Metadata::new("event", TARGETS[t], level_of(l), None, None, None, field::FieldSet::new(&["message", "k"], callsite::Identifier(cs)), Kind::EVENT);
        let _ = cs.meta.set(meta);
        v.push(cs);
      }
    }
    v
  });
  all[target as usize * 5 + (level as usize - 1)].meta.get().unwrap()
}

// ------------------------------------------------------------------------------------------
// History

#[derive(Clone, Debug)]
pub struct EmitEv {
  pub id: u32,
  pub thread: u8,
  pub via_log: bool,
  pub target: u8,
  pub level: u8,
  pub msg: String,
  pub inv: u64,
  pub ret: u64,
}

#[derive(Clone, Debug)]
pub struct Got {
  pub id: u32,
  pub level: String,
  pub target: String,
  /// message as delivered (custom stream: the event's message; json: the "message" member)
  pub message: Option<String>,
  pub at: u64,
}

#[derive(Default)]
pub struct LHist {
  pub emits: Vec<EmitEv>,
  /// custom streams: events received per appender, in order; `disconnected` once seen
  pub custom: BTreeMap<u8, (Vec<Got>, bool)>,
  /// byte sinks: everything written, and how much of it had been flushed at the end
  pub sinks: BTreeMap<u8, (Vec<u8>, usize)>,
  pub stop_begin: u64,
  pub stop_end: u64,
  pub build_error: Option<String>,
}

thread_local! {
  static H: RefCell<LHist> = RefCell::new(LHist::default());
  static CUR: RefCell<Option<Arc<LogSc>>> = const { RefCell::new(None) };
  static NEXT_ID: std::cell::Cell<u32> = const { std::cell::Cell::new(1) };
}

struct Sink {
  ix: u8,
  slow: u8,
  slow_ms: u16,
  buf: Arc<Mutex<(Vec<u8>, usize)>>,
}

impl Write for Sink {
  fn write(&mut self, data: &[u8]) -> std::io::Result<usize> {
    for _ in 0..self.slow {
      ctx::fault_fired(FaultKind::SlowParty);
      shuttle::thread::yield_now();
    }
    if self.slow_ms > 0 {
      ctx::fault_fired(FaultKind::SlowParty);
      fibre_verif_rt::thread::sleep(Duration::from_millis(self.slow_ms as u64));
    }
    self.buf.lock().unwrap().0.extend_from_slice(data);
    Ok(data.len())
  }
  fn flush(&mut self) -> std::io::Result<()> {
    let mut b = self.buf.lock().unwrap();
    b.1 = b.0.len();
    let _ = self.ix;
    Ok(())
  }
}

fn marker(id: u32) -> String {
  format!("#{id}#")
}

fn id_in(s: &str) -> Option<u32> {
  let a = s.find('#')?;
  let rest = &s[a + 1..];
  let b = rest.find('#')?;
  rest[..b].parse().ok()
}

fn log_main() {
  let sc: Arc<LogSc> = CUR.with(|c| c.borrow().clone()).expect("no current scenario");
  ctx::set_auto_time(true);
  let yaml = sc.yaml();
  let bufs: Vec<Arc<Mutex<(Vec<u8>, usize)>>> = sc.appenders.iter().map(|_| Arc::new(Mutex::new((vec![], 0)))).collect();
  let bufs2 = bufs.clone();
  let sc2 = sc.clone();
  let sink = move |name: &str| -> Box<dyn Write + Send> {
    let ix: usize = name[1..].parse().unwrap();
    Box::new(Sink { ix: ix as u8, slow: sc2.appenders[ix].slow, slow_ms: sc2.appenders[ix].slow_ms, buf: bufs2[ix].clone() })
  };
  let mut pipe = match fibre_logging::init::verif::build(&yaml, &sink) {
    Ok(p) => p,
    Err(e) => {
      H.with(|h| h.borrow_mut().build_error = Some(format!("{e}\n{yaml}")));
      return;
    }
  };
  // one consumer per custom stream
  let mut consumers = vec![];
  let mut names: Vec<String> = pipe.init.custom_streams.keys().cloned().collect();
  names.sort();
  for name in names {
    let rx = pipe.init.custom_streams.remove(&name).unwrap();
    let ix: u8 = name[1..].parse().unwrap();
    H.with(|h| {
      h.borrow_mut().custom.insert(ix, (vec![], false));
    });
    consumers.push(shuttle::thread::spawn(move || loop {
      match rx.recv() {
        Ok(ev) => {
          let at = next_seq();
          let msg = ev.message.clone();
          let id = msg.as_deref().and_then(id_in).unwrap_or(0);
          H.with(|h| h.borrow_mut().custom.get_mut(&ix).unwrap().0.push(Got { id, level: ev.level.to_string(), target: ev.target.clone(), message: msg, at }));
        }
        Err(_) => {
          H.with(|h| h.borrow_mut().custom.get_mut(&ix).unwrap().1 = true);
          break;
        }
      }
    }));
  }
  let dispatch = pipe.subscriber.clone();
  let logger: Arc<dyn log::Log> = Arc::from(std::mem::replace(&mut pipe.log, Box::new(NopLog)));
  // The static fast path of both front ends: `log::log!` compares with `log::max_level()` and
  // `tracing::event!` with the most verbose `max_level_hint` before the logger / subscriber is
  // asked at all; `init_from_file` sets both from this value. (Nothing is installed globally
  // here, so the harness applies the comparison itself.)
  let front_end_max = pipe.max_level;
  let mut emitters = vec![];
  for (t, evs) in sc.emitters.iter().enumerate() {
    let (evs, dispatch, logger) = (evs.clone(), dispatch.clone(), logger.clone());
    emitters.push(shuttle::thread::spawn(move || {
      for e in &evs {
        let tr_level = match e.level {
          1 => Level::ERROR,
          2 => Level::WARN,
          3 => Level::INFO,
          4 => Level::DEBUG,
          _ => Level::TRACE,
        };
        let passes_front_end = tr_level <= front_end_max;
        let id = NEXT_ID.with(|n| {
          let v = n.get();
          n.set(v + 1);
          v
        });
        let msg = format!("{}{}", marker(id), e.msg);
        let inv = next_seq();
        if !passes_front_end {
          // discarded by the macro's static check: the pipeline never sees it
        } else if e.via_log {
          let lvl = match e.level {
            1 => log::Level::Error,
            2 => log::Level::Warn,
            3 => log::Level::Info,
            4 => log::Level::Debug,
            _ => log::Level::Trace,
          };
          // what `log::log!` does after its max-level check
          logger.log(&log::Record::builder().args(format_args!("{}", msg)).level(lvl).target(TARGETS[e.target as usize]).module_path(Some("sim")).file(Some("sim.rs")).line(Some(1)).build());
        } else {
          let meta = callsite_meta(e.target, e.level);
          if dispatch.enabled(meta) {
            let fs = meta.fields();
            let (fm, fk) = (fs.field("message").unwrap(), fs.field("k").unwrap());
            let kv = id as u64;
            let vals: [(&field::Field, Option<&dyn field::Value>); 2] = [(&fm, Some(&msg.as_str() as &dyn field::Value)), (&fk, Some(&kv as &dyn field::Value))];
            let vs = fs.value_set(&vals);
            dispatch.event(&tracing::Event::new(meta, &vs));
          }
        }
        let ret = next_seq();
        H.with(|h| h.borrow_mut().emits.push(EmitEv { id, thread: t as u8, via_log: e.via_log, target: e.target, level: e.level, msg, inv, ret }));
      }
    }));
  }
  let (after_join, by_drop, yields) = match sc.stop {
    Stop::ShutdownAfterJoin => (true, false, 0),
    Stop::DropAfterJoin => (true, true, 0),
    Stop::ShutdownAfterYields(n) => (false, false, n),
    Stop::DropAfterYields(n) => (false, true, n),
  };
  let mut emitters = Some(emitters);
  if after_join {
    for j in emitters.take().unwrap() {
      j.join().unwrap();
    }
  } else {
    for _ in 0..yields {
      shuttle::thread::yield_now();
    }
  }
  let b = next_seq();
  H.with(|h| h.borrow_mut().stop_begin = b);
  if by_drop {
    drop(pipe.init);
  } else {
    pipe.init.shutdown(Duration::from_secs(5));
  }
  let e = next_seq();
  H.with(|h| h.borrow_mut().stop_end = e);
  if let Some(em) = emitters.take() {
    for j in em {
      j.join().unwrap();
    }
  }
  for c in consumers {
    c.join().unwrap();
  }
  drop(dispatch);
  drop(logger);
  for (i, b) in bufs.iter().enumerate() {
    if !sc.appenders[i].custom {
      let g = b.lock().unwrap();
      H.with(|h| {
        h.borrow_mut().sinks.insert(i as u8, (g.0.clone(), g.1));
      });
    }
  }
}

struct NopLog;
impl log::Log for NopLog {
  fn enabled(&self, _: &log::Metadata) -> bool {
    false
  }
  fn log(&self, _: &log::Record) {}
  fn flush(&self) {}
}

// ------------------------------------------------------------------------------------------
// Reference routing model

fn matches(logger: &str, target: &str) -> bool {
  target == logger || (target.starts_with(logger) && target[logger.len()..].starts_with("::"))
}

/// The appenders that must receive an event (target, level), by the property's definition.
pub fn expected_appenders(sc: &LogSc, target: &str, level: u8) -> BTreeSet<u8> {
  let root = sc.loggers.iter().find(|l| l.name == "root");
  let matching: Vec<&LoggerSc> = sc.loggers.iter().filter(|l| l.name != "root" && matches(&l.name, target)).collect();
  let winner = matching.iter().max_by_key(|l| l.name.len()).copied();
  let mut out = BTreeSet::new();
  if let Some(w) = winner {
    if !w.additive {
      if level <= w.level {
        out.extend(w.appenders.iter().copied());
      }
      return out;
    }
  }
  for a in 0..sc.appenders.len() as u8 {
    let named = matching.iter().filter(|l| l.appenders.contains(&a)).max_by_key(|l| l.name.len());
    let lvl = match named {
      Some(l) => Some(l.level),
      None => root.filter(|r| r.appenders.contains(&a)).map(|r| r.level),
    };
    if let Some(lv) = lvl {
      if level <= lv {
        out.insert(a);
      }
    }
  }
  out
}

fn level_name(l: u8) -> &'static str {
  ["", "ERROR", "WARN", "INFO", "DEBUG", "TRACE"][l as usize]
}

/// Split a byte sink into delivered records according to its encoder.
fn parse_sink(enc: Enc, bytes: &[u8], vs: &mut Vec<(String, String)>) -> Vec<Got> {
  let text = String::from_utf8_lossy(bytes).to_string();
  let mut out = vec![];
  match enc {
    Enc::Json | Enc::JsonFlat => {
      for line in text.split_inclusive('\n') {
        if !line.ends_with('\n') {
          vs.push(("torn_record".into(), format!("sink ends with a partial line: {line:?}")));
          continue;
        }
        match serde_json::from_str::<Value>(line.trim_end_matches('\n')) {
          Ok(v) => {
            let msg = v["message"].as_str().map(|s| s.to_string());
            let id = msg.as_deref().and_then(id_in).unwrap_or(0);
            out.push(Got { id, level: v["level"].as_str().unwrap_or("").to_string(), target: v["target"].as_str().unwrap_or("").to_string(), message: msg, at: 0 });
          }
          Err(e) => vs.push(("json_record_invalid".into(), format!("line is not valid JSON ({e}): {line:?}"))),
        }
      }
    }
    Enc::PatternDefault | Enc::PatternPlain | Enc::PatternGen(_) => {
      // records may span lines (the message is reproduced verbatim): find the markers
      let mut rest = text.as_str();
      while let Some(p) = rest.find('#') {
        let tail = &rest[p..];
        match id_in(tail) {
          Some(id) => {
            out.push(Got { id, level: String::new(), target: String::new(), message: Some(tail.to_string()), at: 0 });
            let skip = marker(id).len();
            rest = &tail[skip..];
          }
          None => rest = &tail[1..],
        }
      }
    }
  }
  out
}

pub fn evaluate(sc: &LogSc, h: &LHist, out: &RunOut) -> Vec<Violation> {
  let mk = |prop: &str, class: &str, extra: &[(&str, String)], detail: String| {
    let mut facets = BTreeMap::new();
    for (k, v) in extra {
      facets.insert(k.to_string(), v.clone());
    }
    Violation { property: prop.into(), class: class.into(), facets, detail }
  };
  let mut vs = vec![];
  let stop_kind = format!("{:?}", sc.stop).split('(').next().unwrap_or("").to_string();
  if let Some(f) = &out.failure {
    let class = match f.kind {
      FailKind::Deadlock => "deadlock",
      FailKind::StepBound => "step_bound",
      FailKind::Panic => "panic",
    };
    let mut extra = vec![("stop", stop_kind.clone())];
    if f.kind == FailKind::Panic {
      extra.push(("where", f.location.clone()));
    }
    vs.push(mk("C19", class, &extra, format!("{} at {}", f.message, f.location)));
    // a panic with an encoder in the pipeline also breaks "encoders are total" (C20): the panic
    // location alone (often inside alloc / core) cannot tell the encoder from the rest
    if f.kind == FailKind::Panic && sc.appenders.iter().any(|a| !a.custom) {
      let encs: BTreeSet<String> = sc.appenders.iter().filter(|a| !a.custom).map(|a| format!("{:?}", a.enc).split('(').next().unwrap_or("").to_string()).collect();
      vs.push(mk("C20", "panic_with_encoder_in_pipeline", &[("encoders", encs.into_iter().collect::<Vec<_>>().join("+")), ("where", f.location.clone())], format!("{} at {}", f.message, f.location)));
    }
    return vs;
  }
  if let Some(e) = &h.build_error {
    vs.push(mk("C19", "generated_config_rejected", &[], e.clone()));
    return vs;
  }
  // delivered records per appender
  let mut delivered: BTreeMap<u8, Vec<Got>> = BTreeMap::new();
  for (a, (g, disconnected)) in &h.custom {
    delivered.insert(*a, g.clone());
    if !disconnected {
      vs.push(mk("C19", "custom_stream_not_disconnected", &[("stop", stop_kind.clone())], format!("custom stream a{a} never observed Disconnected after shutdown")));
    }
  }
  for (a, (bytes, flushed)) in &h.sinks {
    let enc = sc.appenders[*a as usize].enc;
    let mut problems = vec![];
    let recs = parse_sink(enc, bytes, &mut problems);
    for (class, d) in problems {
      vs.push(mk("C20", &class, &[("encoder", format!("{enc:?}"))], format!("appender a{a}: {d}")));
    }
    if *flushed != bytes.len() {
      vs.push(mk("C19", "buffered_output_not_flushed_at_shutdown", &[("stop", stop_kind.clone())], format!("appender a{a}: {} bytes were written to its sink but only {} had been flushed when shutdown returned", bytes.len(), flushed)));
    }
    delivered.insert(*a, recs);
  }
  for (a, recs) in &delivered {
    let asc = &sc.appenders[*a as usize];
    let mut seen = BTreeSet::new();
    let mut last_per_thread: BTreeMap<u8, u32> = BTreeMap::new();
    for g in recs {
      let Some(e) = h.emits.iter().find(|e| e.id == g.id) else {
        // an emission still in flight when the run ended is not in the ledger only if its
        // thread never returned, which cannot happen on a completed run
        vs.push(mk("C19", "delivered_unknown_event", &[], format!("appender a{a} received a record with marker {} that no emitter sent ({:?})", g.id, g.message)));
        continue;
      };
      if !seen.insert(g.id) {
        vs.push(mk("C19", "event_delivered_twice", &[("custom", asc.custom.to_string())], format!("appender a{a} received event {} twice", g.id)));
      }
      let exp = expected_appenders(sc, TARGETS[e.target as usize], e.level);
      if !exp.contains(a) {
        vs.push(mk("C19", "event_delivered_to_wrong_appender", &[("via_log", e.via_log.to_string())], format!("event {} (target {:?}, level {}) reached appender a{a}; by the logger tree it belongs to {:?}\n{}", e.id, TARGETS[e.target as usize], level_name(e.level), exp, sc.yaml())));
      }
      // per-thread emission order (ids grow with emission order within a thread)
      if let Some(prev) = last_per_thread.insert(e.thread, e.id) {
        let prev_ev = h.emits.iter().find(|x| x.id == prev).unwrap();
        if prev_ev.inv > e.inv {
          vs.push(mk("C19", "per_thread_order_violated", &[("custom", asc.custom.to_string())], format!("appender a{a} received event {} before event {} of the same thread {}, which was emitted first", prev, e.id, e.thread)));
        }
      }
      // content (C20 in situ): level / target / message round-trip
      if asc.custom || matches!(asc.enc, Enc::Json | Enc::JsonFlat) {
        if g.level != level_name(e.level) || g.target != TARGETS[e.target as usize] {
          vs.push(mk("C20", "record_level_or_target_wrong", &[], format!("appender a{a}: event {} was emitted as ({}, {:?}) and delivered as ({}, {:?})", e.id, level_name(e.level), TARGETS[e.target as usize], g.level, g.target)));
        }
        if g.message.as_deref() != Some(e.msg.as_str()) {
          vs.push(mk("C20", "message_not_round_tripped", &[("encoder", if asc.custom { "custom".into() } else { format!("{:?}", asc.enc) })], format!("appender a{a}: event {} message {:?} was delivered as {:?}", e.id, e.msg, g.message)));
        }
      } else if let Some(m) = &g.message {
        if !m.starts_with(e.msg.as_str()) {
          vs.push(mk("C20", "message_not_verbatim", &[("encoder", format!("{:?}", asc.enc))], format!("appender a{a}: the pattern output does not reproduce event {}'s message {:?} verbatim: {:?}", e.id, e.msg, &m[..m.len().min(e.msg.len() + 8)])));
        }
      }
    }
    // completeness: events whose emission returned before the stop began
    for e in &h.emits {
      if e.ret < h.stop_begin && expected_appenders(sc, TARGETS[e.target as usize], e.level).contains(a) && !seen.contains(&e.id) && asc.block {
        vs.push(mk(
          "C19",
          "accepted_event_lost",
          &[("custom", asc.custom.to_string()), ("stop", stop_kind.clone()), ("via_log", e.via_log.to_string())],
          format!("event {} (thread {}, target {:?}, level {}) was emitted completely before the stop began and belongs to blocking appender a{a}, which never received it\n{}", e.id, e.thread, TARGETS[e.target as usize], level_name(e.level), sc.yaml()),
        ));
      }
    }
  }
  vs
}

// ------------------------------------------------------------------------------------------

pub struct LogFamily {
  pub faults: bool,
  /// stop only after the emitters were joined (routing emphasis) or at any moment
  pub stop_anytime: bool,
}

const MSG_PARTS: [&str; 14] = ["hello", " ", "\"quoted\"", "back\\slash", "line\nbreak", "tab\t", "\u{1}ctl", "é", "日本", "😀", "%m %p %%", "{\"a\":1}", "", "x"];

impl Family for LogFamily {
  type Sc = LogSc;

  fn name(&self) -> &'static str {
    "LOG-PIPE"
  }

  fn rule(&self) -> &'static str {
    "one case = one generated configuration (root + 0-4 named loggers over a fixed name pool with prefix / non-prefix relations, levels off..trace, additive flags, wiring to 1-3 appenders: custom streams or byte appenders with json_lines / flattened json / default pattern / plain pattern / generated pattern (2-7 segments over all directives with optional padding) encoders, capacities 1-64, block or drop overflow, optionally slow sinks) with 1-3 emitting threads x 1-5 events (via the log bridge or the tracing layer; 8 targets x 5 levels; messages with quotes, backslashes, newlines, control and non-ASCII characters), one consumer thread per custom stream, and shutdown(timeout) or guard drop after the emitters finished or after 0-40 yields; non-trivial = >=1 delivered record and >=2 emissions; distinct = distinct scheduler decision-trace hash"
  }

  fn needs_fresh_thread(&self) -> bool {
    false
  }

  fn max_steps(&self) -> usize {
    200_000
  }

  fn stack_size(&self) -> usize {
    0x40000
  }

  fn generate(&self, rng: &mut Rng) -> LogSc {
    let napp = rng.range(1, 3) as usize;
    let appenders: Vec<AppenderSc> = (0..napp)
      .map(|_| AppenderSc {
        custom: rng.chance(1, 2),
        capacity: *rng.pick(&[1usize, 1, 2, 4, 64]),
        block: rng.chance(3, 4),
        enc: match rng.below(6) {
          0 => Enc::Json,
          1 => Enc::JsonFlat,
          2 => Enc::PatternDefault,
          3 => Enc::PatternPlain,
          _ => Enc::PatternGen(rng.next_u64() as u32),
        },
        slow: if rng.chance(1, 4) { rng.range(1, 3) as u8 } else { 0 },
        // (<= 15 events x 200 ms stays well inside the 5 s shutdown timeout)
        slow_ms: if self.faults && rng.chance(1, 4) { *rng.pick(&[60u16, 200]) } else { 0 },
      })
      .collect();
    let mut loggers = vec![];
    let pick_apps = |rng: &mut Rng| -> Vec<u8> {
      let mut v: Vec<u8> = (0..napp as u8).filter(|_| rng.chance(1, 2)).collect();
      v.dedup();
      v
    };
    if rng.chance(5, 6) {
      loggers.push(LoggerSc { name: "root".into(), level: rng.below(6) as u8, appenders: pick_apps(rng), additive: true });
    }
    let mut names: Vec<&str> = LOGGERS.to_vec();
    for _ in 0..rng.below(5) {
      let i = rng.below(names.len() as u64) as usize;
      let name = names.remove(i);
      loggers.push(LoggerSc { name: name.into(), level: rng.below(6) as u8, appenders: pick_apps(rng), additive: rng.chance(2, 3) });
    }
    let nem = rng.range(1, 3) as usize;
    let emitters: Vec<Vec<Emit>> = (0..nem)
      .map(|_| {
        (0..rng.range(1, 5))
          .map(|_| {
            let parts = rng.below(4);
            let mut msg = String::new();
            for _ in 0..parts {
              msg.push_str(*rng.pick(&MSG_PARTS[..]));
            }
            if rng.chance(1, 30) {
              msg.push_str(&"long ".repeat(80));
            }
            Emit { via_log: rng.chance(1, 2), target: rng.below(TARGETS.len() as u64) as u8, level: rng.range(1, 5) as u8, msg }
          })
          .collect()
      })
      .collect();
    let stop = if self.stop_anytime {
      match rng.below(4) {
        0 => Stop::ShutdownAfterJoin,
        1 => Stop::DropAfterJoin,
        2 => Stop::ShutdownAfterYields(rng.below(40) as u16),
        _ => Stop::DropAfterYields(rng.below(40) as u16),
      }
    } else if rng.chance(1, 2) {
      Stop::ShutdownAfterJoin
    } else {
      Stop::DropAfterJoin
    };
    let total: u32 = emitters.iter().map(|e| e.len() as u32).sum();
    let mut knobs = Knobs::gen(rng, self.faults, 120 * (total + 6));
    knobs.max_steps = 200_000;
    LogSc { loggers, appenders, emitters, stop, knobs }
  }

  fn begin(&self, sc: &LogSc, record_trace: bool) -> RunCfg {
    // the `log` crate's global max level is process-wide: keep it fully open (see DESIGN.md)
    log::set_max_level(log::LevelFilter::Trace);
    H.with(|h| *h.borrow_mut() = LHist::default());
    NEXT_ID.with(|n| n.set(1));
    CUR.with(|c| *c.borrow_mut() = Some(Arc::new(sc.clone())));
    sc.knobs.run_cfg(record_trace)
  }

  fn body(&self) -> Arc<dyn Fn() + Send + Sync> {
    Arc::new(log_main)
  }

  fn finish(&self, sc: &LogSc, out: RunOut) -> Evaluated {
    CUR.with(|c| *c.borrow_mut() = None);
    let h = H.with(|h| std::mem::take(&mut *h.borrow_mut()));
    if std::env::var("VERIF_DUMP_TAGGED").is_ok() {
      let tag = sc.knobs.seed;
      let mut lines = vec![format!("steps={} switches={} failure={:?}", out.stats.steps, out.stats.switches, out.failure)];
      for e in &h.emits {
        lines.push(format!("emit {e:?}"));
      }
      for (a, (g, d)) in &h.custom {
        lines.push(format!("custom a{a}: disconnected={d} {:?}", g.iter().map(|x| (x.id, x.at)).collect::<Vec<_>>()));
      }
      for (a, (b, f)) in &h.sinks {
        lines.push(format!("sink a{a}: {} bytes, {} flushed", b.len(), f));
      }
      lines.push(format!("stop [{}..{}]", h.stop_begin, h.stop_end));
      println!("{}", lines.iter().map(|l| format!("TAG{tag} {l}")).collect::<Vec<_>>().join("\n"));
    }
    if std::env::var("VERIF_DUMP").is_ok() {
      println!("{}", sc.yaml());
      for e in &h.emits {
        println!("  emit {e:?} -> expected {:?}", expected_appenders(sc, TARGETS[e.target as usize], e.level));
      }
      for (a, (g, d)) in &h.custom {
        println!("  custom a{a}: disconnected={d} {:?}", g.iter().map(|x| x.id).collect::<Vec<_>>());
      }
      for (a, (b, f)) in &h.sinks {
        println!("  sink a{a}: {} bytes, {} flushed: {:?}", b.len(), f, String::from_utf8_lossy(b));
      }
      println!("  stop {:?} [{}..{}] failure={:?}", sc.stop, h.stop_begin, h.stop_end, out.failure);
    }
    let violations = evaluate(sc, &h, &out);
    let mut states: Vec<u64> = vec![];
    for e in &h.emits {
      let exp = expected_appenders(sc, TARGETS[e.target as usize], e.level);
      states.push(hash_str(&format!("{}|{}|{}|{}", e.via_log, e.target, e.level, exp.len())));
    }
    states.push(hash_str(&format!("stop|{:?}", std::mem::discriminant(&sc.stop))));
    states.sort();
    states.dedup();
    let delivered: usize = h.custom.values().map(|c| c.0.len()).sum::<usize>() + h.sinks.values().filter(|s| !s.0.is_empty()).count();
    Evaluated { out, violations, states, nontrivial: delivered >= 1 && h.emits.len() >= 2 }
  }

  fn shrink(&self, sc: &LogSc) -> Vec<LogSc> {
    let mut out = vec![];
    if sc.emitters.len() > 1 {
      for i in 0..sc.emitters.len() {
        let mut c = sc.clone();
        c.emitters.remove(i);
        out.push(c);
      }
    }
    for (ti, t) in sc.emitters.iter().enumerate() {
      if t.len() > 1 {
        for oi in 0..t.len() {
          let mut c = sc.clone();
          c.emitters[ti].remove(oi);
          out.push(c);
        }
      }
      for (oi, e) in t.iter().enumerate() {
        if !e.msg.is_empty() {
          let mut c = sc.clone();
          c.emitters[ti][oi].msg = String::new();
          out.push(c);
        }
      }
    }
    for li in 0..sc.loggers.len() {
      let mut c = sc.clone();
      c.loggers.remove(li);
      out.push(c);
    }
    // drop the last appender if nothing refers to it
    if sc.appenders.len() > 1 {
      let last = (sc.appenders.len() - 1) as u8;
      let mut c = sc.clone();
      c.appenders.pop();
      for l in &mut c.loggers {
        l.appenders.retain(|a| *a != last);
      }
      out.push(c);
    }
    for (ai, a) in sc.appenders.iter().enumerate() {
      if a.slow > 0 {
        let mut c = sc.clone();
        c.appenders[ai].slow = 0;
        out.push(c);
      }
      if a.slow_ms > 0 {
        let mut c = sc.clone();
        c.appenders[ai].slow_ms = 0;
        out.push(c);
      }
    }
    match sc.stop {
      Stop::ShutdownAfterYields(n) if n > 0 => {
        let mut c = sc.clone();
        c.stop = Stop::ShutdownAfterYields(n / 2);
        out.push(c);
      }
      Stop::DropAfterYields(n) if n > 0 => {
        let mut c = sc.clone();
        c.stop = Stop::DropAfterYields(n / 2);
        out.push(c);
      }
      _ => {}
    }
    let k = &sc.knobs;
    if k.spurious_rate > 0 || k.cas_weak > 0 || k.park_return > 0 {
      let mut c = sc.clone();
      c.knobs.spurious_rate = 0;
      c.knobs.cas_weak = 0;
      c.knobs.park_return = 0;
      out.push(c);
    }
    if k.mode != ModeSer::Uniform {
      let mut c = sc.clone();
      c.knobs.mode = ModeSer::Uniform;
      out.push(c);
    }
    out.retain(|c| !c.emitters.is_empty() && c.emitters.iter().all(|t| !t.is_empty()));
    out
  }

  fn reseed(&self, sc: &LogSc, seed: u64) -> LogSc {
    let mut c = sc.clone();
    c.knobs.seed = seed;
    c
  }

  fn components(&self) -> Value {
    json!({
      "real": ["fibre_logging configuration parsing + processing (serde_yaml), build_filter_for_appender, PerAppenderFilter, EventProcessor::process_event, DispatchLayer (on a real tracing_subscriber Registry), LogHandler (log bridge), encoders (json_lines, pattern), run_byte_appender_writer threads, InitResult::shutdown / Drop",
               "fibre::mpsc bounded channels between emitters and appenders (simulated primitives underneath)"],
      "stub": ["init_from_file's own appender loop and the installation of the global subscriber / logger: mirrored by hook H7 (init::verif::build), which sorts appenders by name and takes writers from the harness",
               "console / file writers -> in-memory sinks (optionally slow)", "tracing's dispatcher (thread-local selection and the process-wide dispatcher registry) -> Subscriber::enabled + Subscriber::event called directly on the scoped subscriber",
               "log::log! macro -> Log::log on the bridge with the process-wide max level held at Trace", "std::thread / Instant / sleep in init.rs and lib.rs -> fibre_verif_rt"],
    })
  }
}
