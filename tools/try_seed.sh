#!/bin/bash
# Usage: try_seed.sh <patch.diff> <Cxx> [tier] [extra fibsim args]
# Applies a seeded change to /repo, runs the check of <Cxx> against it with all outputs redirected
# to a scratch directory (so /verif/evidence is not overwritten by a mutated tree), and undoes the
# change again. Prints the VIOLATION lines and the exit code.
set -u
patch="$1"; prop="$2"; tier="${3:-quick}"; shift 3 2>/dev/null || shift $#
out=$(mktemp -d /tmp/seedrun-XXXXXX)
cp /verif/known_findings.json "$out/"
if [ -n "$(git -C /repo status --porcelain)" ]; then echo "REPO-NOT-CLEAN: commit or stash changes in /repo first"; rm -rf "$out"; exit 2; fi
git -C /repo apply "$patch" || { echo "PATCH-DOES-NOT-APPLY"; rm -rf "$out"; exit 2; }
trap 'git -C /repo checkout -- . ; rm -rf "$out"' EXIT
# SEED_TARGET_DIR: build into (and run from) another cargo target directory, so a check that is
# running from sim/target at the same time never picks up the mutated binary
tdir="${SEED_TARGET_DIR:-/verif/sim/target}"
cd /verif/sim && CARGO_TARGET_DIR="$tdir" cargo build --release --offline -q -p fibsim 2>"$out/build.log" || { echo "BUILD-FAILED"; tail -20 "$out/build.log"; exit 2; }
VERIF_DIR="$out" "$tdir/release/fibsim" check "$prop" --"$tier" "$@" > "$out/run.log" 2>&1
code=$?
grep -E "VIOLATION|KNOWN-FINDING|^  class=|done:" "$out/run.log" | cut -c1-400 | head -20
echo "EXIT=$code"
exit $code
