#!/usr/bin/env python3
"""Regenerates /verif/seeded/README.md (the table DESIGN.md section 10 refers to) from seeded/*/meta.json."""
import json, glob, os
rows = []
for f in sorted(glob.glob('/verif/seeded/*/meta.json')):
    m = json.load(open(f))
    by = '; '.join(f"{b['check']} {b['tier']} ({b['class']}, {b['seconds']} s)" for b in m.get('caught_by', [])) or '-'
    rows.append((os.path.basename(os.path.dirname(f)), m['property'], (m.get('summary') or '').replace('\n', ' ').replace('|', '/'), 'yes' if m.get('caught') else 'NO', by, (m.get('machinery_strengthened') or '').replace('|', '/')))
out = ["# Seeded property-breaking changes", "",
       "Each directory holds `patch.diff` (applies to /repo HEAD with `git -C /repo apply`), the sub-agent's demonstration (`demo.rs` / prose in `agent_meta.json`) and `meta.json` (what it breaks, which check catches it, what was strengthened). The changes were written by fresh sub-agents that saw only the property text and a scratch worktree; all compile and pass the crate's existing tests. `tools/try_seed.sh <patch> <Cxx> [tier]` applies one, runs the check with outputs redirected to a scratch directory and restores /repo.", "",
       "| id | property | change | caught | by (check, tier, class, time to first violation incl. build) | machinery strengthened because of it |", "|---|---|---|---|---|---|"]
for r in rows:
    out.append('| ' + ' | '.join(r) + ' |')
open('/verif/seeded/README.md', 'w').write('\n'.join(out) + '\n')
print(len(rows), 'rows')
