//! SPMC broadcast family (C07, plus the C04/C05/C06/C09 clauses that mention spmc): 1 sender,
//! 1–3 receivers (each thread drives its own receiver handle), receivers cloned / dropped /
//! closed while the sender is sending or parked, single and batch forms, capacity 1–4.

use super::adapt::{Either, RRes, RecvOut, Rx, SRes, SendOut, Tx};
use super::conc::*;
use super::drive::{drive, Plan};
use super::oracle::{any_cancel, c04_rules, c09_rules, handle_gone_before, viol_named};
use super::tok::{ledger_reset, ledger_snapshot, CTok, LedgerEntry, Tok};
use crate::core::batch::{Evaluated, Family, Violation};
use crate::core::rng::Rng;
use crate::core::run::{FailKind, RunCfg, RunOut};
use fibre::error::{BatchSendErrorReason, TryRecvError, TrySendError};
use fibre::spmc;
use fibre::{RecvErrorTimeout, SendError};
use fibre_verif_rt::ctx::next_seq;
use serde::{Deserialize, Serialize};
use serde_json::{json, Value};
use std::cell::RefCell;
use std::collections::BTreeMap;
use std::sync::Arc;
use std::time::Duration;

// token conversion at the adapter boundary (no ledger effect: identity moves)
fn to_c(t: Tok) -> CTok {
  let id = t.0;
  std::mem::forget(t);
  CTok(id)
}
fn from_c(c: CTok) -> Tok {
  let id = c.0;
  std::mem::forget(c);
  Tok(id)
}
fn ids_c(v: &[CTok]) -> Vec<u32> {
  v.iter().map(|t| t.id()).collect()
}

pub struct SpmcTx(pub Either<spmc::BoundedSyncSender<CTok>, spmc::BoundedAsyncSender<CTok>>);
pub struct SpmcRx(pub Either<spmc::BoundedSyncReceiver<CTok>, spmc::BoundedAsyncReceiver<CTok>>);

fn s_try(r: Result<(), TrySendError<CTok>>) -> SendOut {
  match r {
    Ok(()) => SendOut { res: SRes::Ok, sent: 1, back: vec![], unknown: vec![] },
    Err(TrySendError::Full(t)) => SendOut { res: SRes::Full, sent: 0, back: vec![t.id()], unknown: vec![] },
    Err(TrySendError::Closed(t)) => SendOut { res: SRes::Closed, sent: 0, back: vec![t.id()], unknown: vec![] },
    Err(TrySendError::Sent(t)) => SendOut { res: SRes::Sent, sent: 0, back: vec![t.id()], unknown: vec![] },
  }
}
fn s_send(id: u32, r: Option<Result<(), SendError>>) -> SendOut {
  match r {
    Some(Ok(())) => SendOut { res: SRes::Ok, sent: 1, back: vec![], unknown: vec![] },
    Some(Err(_)) => SendOut { res: SRes::Closed, sent: 0, back: vec![], unknown: vec![] },
    None => SendOut { res: SRes::Cancelled, sent: 0, back: vec![], unknown: vec![id] },
  }
}
fn s_batch(input: &[u32], r: Option<Result<usize, fibre::SendBatchError<CTok>>>) -> SendOut {
  match r {
    Some(Ok(n)) => SendOut { res: SRes::Ok, sent: n, back: vec![], unknown: vec![] },
    Some(Err(e)) => SendOut { res: SRes::Closed, sent: e.sent, back: ids_c(&e.unsent), unknown: vec![] },
    None => SendOut { res: SRes::Cancelled, sent: 0, back: vec![], unknown: input.to_vec() },
  }
}
fn s_try_batch(r: Result<usize, fibre::TrySendBatchError<CTok>>) -> SendOut {
  match r {
    Ok(n) => SendOut { res: SRes::Ok, sent: n, back: vec![], unknown: vec![] },
    Err(e) => SendOut { res: if e.reason == BatchSendErrorReason::Full { SRes::Full } else { SRes::Closed }, sent: e.sent, back: ids_c(&e.unsent), unknown: vec![] },
  }
}
fn s_mut(before: usize, v: &mut Vec<CTok>, r: Option<Result<usize, SendError>>, try_form: bool) -> SendOut {
  let back = ids_c(v);
  let sent = before - v.len();
  let res = match r {
    Some(Ok(n)) => {
      if n != sent {
        return SendOut { res: SRes::Ok, sent: n, back, unknown: vec![u32::MAX] };
      }
      if !v.is_empty() && try_form {
        SRes::Full
      } else {
        SRes::Ok
      }
    }
    Some(Err(_)) => SRes::Closed,
    None => SRes::Cancelled,
  };
  v.clear();
  SendOut { res, sent, back, unknown: vec![] }
}

impl Tx for SpmcTx {
  fn is_async(&self) -> bool {
    matches!(self.0, Either::A(_))
  }
  fn send(&mut self, t: Tok, p: Plan) -> SendOut {
    let id = t.id();
    match &mut self.0 {
      Either::S(h) => s_send(id, Some(h.send(to_c(t)))),
      Either::A(h) => s_send(id, drive(h.send(to_c(t)), p)),
    }
  }
  fn try_send(&mut self, t: Tok) -> SendOut {
    match &mut self.0 {
      Either::S(h) => s_try(h.try_send(to_c(t))),
      Either::A(h) => s_try(h.try_send(to_c(t))),
    }
  }
  fn send_batch(&mut self, v: Vec<Tok>, p: Plan) -> SendOut {
    let input: Vec<u32> = v.iter().map(|t| t.id()).collect();
    let v: Vec<CTok> = v.into_iter().map(to_c).collect();
    match &mut self.0 {
      Either::S(h) => s_batch(&input, Some(h.send_batch(v))),
      Either::A(h) => s_batch(&input, drive(h.send_batch(v), p)),
    }
  }
  fn try_send_batch(&mut self, v: Vec<Tok>) -> SendOut {
    let v: Vec<CTok> = v.into_iter().map(to_c).collect();
    match &mut self.0 {
      Either::S(h) => s_try_batch(h.try_send_batch(v)),
      Either::A(h) => s_try_batch(h.try_send_batch(v)),
    }
  }
  fn send_batch_mut(&mut self, v: Vec<Tok>, p: Plan) -> SendOut {
    let mut v: Vec<CTok> = v.into_iter().map(to_c).collect();
    let before = v.len();
    match &mut self.0 {
      Either::S(h) => {
        let r = h.send_batch_mut(&mut v);
        s_mut(before, &mut v, Some(r), false)
      }
      Either::A(h) => {
        let r = drive(h.send_batch_mut(&mut v), p);
        s_mut(before, &mut v, r, false)
      }
    }
  }
  fn try_send_batch_mut(&mut self, v: Vec<Tok>) -> SendOut {
    let mut v: Vec<CTok> = v.into_iter().map(to_c).collect();
    let before = v.len();
    match &mut self.0 {
      Either::S(h) => {
        let r = h.try_send_batch_mut(&mut v);
        s_mut(before, &mut v, Some(r), true)
      }
      Either::A(h) => {
        let r = h.try_send_batch_mut(&mut v);
        s_mut(before, &mut v, Some(r), true)
      }
    }
  }
  fn close(&mut self) -> bool {
    match &mut self.0 {
      Either::S(h) => h.close().is_ok(),
      Either::A(h) => h.close().is_ok(),
    }
  }
  fn is_closed(&self) -> bool {
    match &self.0 {
      Either::S(h) => h.is_closed(),
      Either::A(h) => h.is_closed(),
    }
  }
  fn len(&self) -> Option<usize> {
    Some(match &self.0 {
      Either::S(h) => h.len(),
      Either::A(h) => h.len(),
    })
  }
  fn capacity(&self) -> Option<usize> {
    Some(match &self.0 {
      Either::S(h) => h.capacity(),
      Either::A(h) => h.capacity(),
    })
  }
  fn is_full(&self) -> Option<bool> {
    Some(match &self.0 {
      Either::S(h) => h.is_full(),
      Either::A(h) => h.is_full(),
    })
  }
  fn is_empty(&self) -> Option<bool> {
    Some(match &self.0 {
      Either::S(h) => h.is_empty(),
      Either::A(h) => h.is_empty(),
    })
  }
  fn try_clone(&self) -> Option<Box<dyn Tx>> {
    None
  }
  fn convert(self: Box<Self>) -> Box<dyn Tx> {
    match self.0 {
      Either::S(h) => Box::new(SpmcTx(Either::A(h.to_async()))),
      Either::A(h) => Box::new(SpmcTx(Either::S(h.to_sync()))),
    }
  }
}

fn r_one(r: Option<Result<CTok, fibre::RecvError>>) -> RecvOut {
  match r {
    Some(Ok(t)) => {
      let t = from_c(t);
      RecvOut { res: RRes::Got, got: vec![t.id()] }
    }
    Some(Err(_)) => RecvOut { res: RRes::Disconnected, got: vec![] },
    None => RecvOut { res: RRes::Cancelled, got: vec![] },
  }
}
fn r_try(r: Result<CTok, TryRecvError>) -> RecvOut {
  match r {
    Ok(t) => {
      let t = from_c(t);
      RecvOut { res: RRes::Got, got: vec![t.id()] }
    }
    Err(TryRecvError::Empty) => RecvOut { res: RRes::Empty, got: vec![] },
    Err(TryRecvError::Disconnected) => RecvOut { res: RRes::Disconnected, got: vec![] },
  }
}
fn r_many(r: Option<Result<Vec<CTok>, fibre::RecvError>>) -> RecvOut {
  match r {
    Some(Ok(v)) => RecvOut { res: RRes::Got, got: ids_c(&v) },
    Some(Err(_)) => RecvOut { res: RRes::Disconnected, got: vec![] },
    None => RecvOut { res: RRes::Cancelled, got: vec![] },
  }
}
fn r_try_many(r: Result<Vec<CTok>, TryRecvError>) -> RecvOut {
  match r {
    Ok(v) => RecvOut { res: RRes::Got, got: ids_c(&v) },
    Err(TryRecvError::Empty) => RecvOut { res: RRes::Empty, got: vec![] },
    Err(TryRecvError::Disconnected) => RecvOut { res: RRes::Disconnected, got: vec![] },
  }
}
fn r_mut(out: &mut Vec<CTok>, res_ok: Option<Result<usize, ()>>, empty_res: RRes) -> RecvOut {
  let mut got = ids_c(out);
  out.clear();
  match res_ok {
    Some(Ok(n)) => {
      if n != got.len() {
        got.push(u32::MAX);
      }
      RecvOut { res: RRes::Got, got }
    }
    Some(Err(())) => RecvOut { res: if got.is_empty() { empty_res } else { RRes::Got }, got },
    None => RecvOut { res: if got.is_empty() { RRes::Cancelled } else { RRes::Got }, got },
  }
}

impl Rx for SpmcRx {
  fn is_async(&self) -> bool {
    matches!(self.0, Either::A(_))
  }
  fn recv(&mut self, p: Plan) -> RecvOut {
    match &mut self.0 {
      Either::S(h) => r_one(Some(h.recv())),
      Either::A(h) => r_one(drive(h.recv(), p)),
    }
  }
  fn try_recv(&mut self) -> RecvOut {
    match &mut self.0 {
      Either::S(h) => r_try(h.try_recv()),
      Either::A(h) => r_try(h.try_recv()),
    }
  }
  fn recv_timeout(&mut self, d: Duration) -> RecvOut {
    match &mut self.0 {
      Either::S(h) => match h.recv_timeout(d) {
        Ok(t) => {
          let t = from_c(t);
          RecvOut { res: RRes::Got, got: vec![t.id()] }
        }
        Err(RecvErrorTimeout::Timeout) => RecvOut { res: RRes::Timeout, got: vec![] },
        Err(RecvErrorTimeout::Disconnected) => RecvOut { res: RRes::Disconnected, got: vec![] },
      },
      Either::A(_) => RecvOut { res: RRes::Unsupported, got: vec![] },
    }
  }
  fn recv_batch(&mut self, max: usize, p: Plan) -> RecvOut {
    match &mut self.0 {
      Either::S(h) => r_many(Some(h.recv_batch(max))),
      Either::A(h) => r_many(drive(h.recv_batch(max), p)),
    }
  }
  fn try_recv_batch(&mut self, max: usize) -> RecvOut {
    match &mut self.0 {
      Either::S(h) => r_try_many(h.try_recv_batch(max)),
      Either::A(h) => r_try_many(h.try_recv_batch(max)),
    }
  }
  fn recv_batch_mut(&mut self, max: usize, p: Plan) -> RecvOut {
    let mut out: Vec<CTok> = Vec::new();
    match &mut self.0 {
      Either::S(h) => {
        let r = h.recv_batch_mut(&mut out, max);
        r_mut(&mut out, Some(r.map_err(|_| ())), RRes::Disconnected)
      }
      Either::A(h) => {
        let r = drive(h.recv_batch_mut(&mut out, max), p);
        r_mut(&mut out, r.map(|x| x.map_err(|_| ())), RRes::Disconnected)
      }
    }
  }
  fn try_recv_batch_mut(&mut self, max: usize) -> RecvOut {
    let mut out: Vec<CTok> = Vec::new();
    let r = match &mut self.0 {
      Either::S(h) => h.try_recv_batch_mut(&mut out, max),
      Either::A(h) => h.try_recv_batch_mut(&mut out, max),
    };
    match r {
      Ok(n) => r_mut(&mut out, Some(Ok(n)), RRes::Empty),
      Err(TryRecvError::Empty) => r_mut(&mut out, Some(Err(())), RRes::Empty),
      Err(TryRecvError::Disconnected) => r_mut(&mut out, Some(Err(())), RRes::Disconnected),
    }
  }
  fn stream_next(&mut self, p: Plan) -> RecvOut {
    use futures_util::StreamExt;
    match &mut self.0 {
      Either::S(_) => RecvOut { res: RRes::Unsupported, got: vec![] },
      Either::A(h) => match drive(h.next(), p) {
        Some(Some(t)) => {
          let t = from_c(t);
          RecvOut { res: RRes::Got, got: vec![t.id()] }
        }
        Some(None) => RecvOut { res: RRes::Disconnected, got: vec![] },
        None => RecvOut { res: RRes::Cancelled, got: vec![] },
      },
    }
  }
  fn close(&mut self) -> bool {
    match &mut self.0 {
      Either::S(h) => h.close().is_ok(),
      Either::A(h) => h.close().is_ok(),
    }
  }
  fn is_closed(&self) -> bool {
    match &self.0 {
      Either::S(h) => h.is_closed(),
      Either::A(h) => h.is_closed(),
    }
  }
  fn len(&self) -> Option<usize> {
    Some(match &self.0 {
      Either::S(h) => h.len(),
      Either::A(h) => h.len(),
    })
  }
  fn capacity(&self) -> Option<usize> {
    Some(match &self.0 {
      Either::S(h) => h.capacity(),
      Either::A(h) => h.capacity(),
    })
  }
  fn is_full(&self) -> Option<bool> {
    Some(match &self.0 {
      Either::S(h) => h.is_full(),
      Either::A(h) => h.is_full(),
    })
  }
  fn is_empty(&self) -> Option<bool> {
    Some(match &self.0 {
      Either::S(h) => h.is_empty(),
      Either::A(h) => h.is_empty(),
    })
  }
  fn try_clone(&self) -> Option<Box<dyn Rx>> {
    Some(match &self.0 {
      Either::S(h) => Box::new(SpmcRx(Either::S(h.clone()))),
      Either::A(h) => Box::new(SpmcRx(Either::A(h.clone()))),
    })
  }
  fn convert(self: Box<Self>) -> Box<dyn Rx> {
    match self.0 {
      Either::S(h) => Box::new(SpmcRx(Either::A(h.to_async()))),
      Either::A(h) => Box::new(SpmcRx(Either::S(h.to_sync()))),
    }
  }
}

// ------------------------------------------------------------------------------------------

#[derive(Clone, Debug, Serialize, Deserialize, PartialEq)]
pub struct SpmcSc {
  pub cap: usize,
  pub async_ctor: bool,
  pub producer: Producer,
  pub consumers: Vec<Consumer>,
  pub knobs: Knobs,
}

impl SpmcSc {
  pub fn any_async(&self) -> bool {
    self.async_ctor || self.producer.ops.iter().any(|o| matches!(o, POp::Convert)) || self.consumers.iter().any(|c| c.ops.iter().any(|o| matches!(o, COp::Convert)))
  }
  pub fn total_tokens(&self) -> usize {
    self.producer.ops.iter().map(|o| if let POp::Send { n, .. } = o { *n as usize } else { 0 }).sum()
  }
}

thread_local! {
  static CUR: RefCell<Option<Arc<SpmcSc>>> = const { RefCell::new(None) };
}

pub struct SpmcRun {
  pub out: RunOut,
  pub events: Vec<Ev>,
  pub ledger: Vec<LedgerEntry>,
}

fn spmc_main() {
  let sc: Arc<SpmcSc> = CUR.with(|c| c.borrow().clone()).expect("no current scenario");
  let sh = Arc::new(Shared::new());
  let (tx, rx): (Box<dyn Tx>, Box<dyn Rx>) = if sc.async_ctor {
    let (t, r) = spmc::bounded_async::<CTok>(sc.cap);
    (Box::new(SpmcTx(Either::A(t))), Box::new(SpmcRx(Either::A(r))))
  } else {
    let (t, r) = spmc::bounded::<CTok>(sc.cap);
    (Box::new(SpmcTx(Either::S(t))), Box::new(SpmcRx(Either::S(r))))
  };
  let tx_id = sh.handle_id();
  let rx0_id = sh.handle_id();
  let total = sc.total_tokens();
  let mut rx0 = Some(rx);
  let mut joins = vec![];
  for (i, _) in sc.consumers.iter().enumerate() {
    let last = i + 1 == sc.consumers.len();
    let (rx, hid) = if last {
      (rx0.take().unwrap(), rx0_id)
    } else {
      let c = rx0.as_ref().unwrap().try_clone().unwrap();
      let nid = sh.handle_id();
      let inv = next_seq();
      record(255, rx0_id, inv, EvK::RxClone { to: nid });
      (c, nid)
    };
    let sc2 = sc.clone();
    let sh2 = sh.clone();
    joins.push(shuttle::thread::spawn(move || run_consumer(i, 1, &sc2.consumers[i], rx, hid, &sh2, total)));
  }
  let sc2 = sc.clone();
  let sh2 = sh.clone();
  let pj = shuttle::thread::spawn(move || run_producer(0, &sc2.producer, tx, tx_id, &sh2));
  pj.join().unwrap();
  for j in joins {
    j.join().unwrap();
  }
}

pub struct SpmcFamily {
  pub faults: bool,
  /// 0 sync only, 1 async only, 2 mixed
  pub asyncness: u8,
  pub cancel: bool,
  pub lifecycle: bool,
}

fn gen_plan(rng: &mut Rng, allow_cancel: bool) -> Plan {
  let mut p = Plan::NONE;
  if allow_cancel && rng.chance(1, 5) {
    p.cancel_after = rng.range(1, 2) as u8;
    p.linger = rng.below(3) as u8;
  }
  if rng.chance(1, 6) {
    p.swap_waker = true;
  }
  if rng.chance(1, 8) {
    p.spurious_poll = true;
  }
  p
}

impl Family for SpmcFamily {
  type Sc = SpmcSc;

  fn name(&self) -> &'static str {
    "CH-SPMC"
  }

  fn rule(&self) -> &'static str {
    "one case = one generated broadcast program (capacity 1-4, one sender with <=12 values in mixed single/batch forms, 1-3 receivers cycling mixed receive forms, receivers cloned/dropped/closed mid-run, cancellation plans) under one seeded schedule and fault plan; non-trivial = >=3 context switches and >=1 value delivered; distinct = distinct scheduler decision-trace hash"
  }

  fn needs_fresh_thread(&self) -> bool {
    false
  }

  fn max_steps(&self) -> usize {
    60_000
  }

  fn generate(&self, rng: &mut Rng) -> SpmcSc {
    let cap = *rng.pick(&[1usize, 1, 2, 2, 3, 4]);
    let async_ctor = match self.asyncness {
      0 => false,
      1 => true,
      _ => rng.chance(1, 2),
    };
    // producer
    let mut ops = vec![];
    let mut left = rng.range(1, 12);
    while left > 0 {
      match rng.below(20) {
        0 if self.asyncness == 2 => ops.push(POp::Convert),
        1 => ops.push(POp::Observe),
        2 => ops.push(POp::Yield),
        _ => {}
      }
      let form = *rng.pick(&[SendForm::Single, SendForm::Single, SendForm::Try, SendForm::Batch, SendForm::TryBatch, SendForm::BatchMut, SendForm::TryBatchMut]);
      let n = match form {
        SendForm::Single | SendForm::Try => 1,
        _ => rng.range(1, left.min(5)),
      };
      left -= n;
      ops.push(POp::Send { form, n: n as u8, plan: gen_plan(rng, self.cancel) });
    }
    let ncons = rng.range(1, 3);
    let mut consumers = vec![];
    for i in 0..ncons {
      let mut cops = vec![];
      for _ in 0..rng.range(1, 4) {
        match rng.below(14) {
          0 if self.asyncness == 2 => cops.push(COp::Convert),
          1 if self.lifecycle => cops.push(COp::CloneSwap),
          2 if self.lifecycle => cops.push(COp::CloneDrop),
          3 => cops.push(COp::Observe),
          4 => cops.push(COp::Yield),
          _ => {}
        }
        let mut forms = vec![RecvForm::Single, RecvForm::Single, RecvForm::Try, RecvForm::Timeout, RecvForm::Batch, RecvForm::TryBatch, RecvForm::BatchMut, RecvForm::TryBatchMut];
        if self.asyncness > 0 {
          forms.push(RecvForm::Stream);
        }
        cops.push(COp::Recv { form: *rng.pick(&forms), max: rng.range(1, 4) as u8, timeout_ns: *rng.pick(&[1u64, 1_000, 1_000_000, 50_000_000]), plan: gen_plan(rng, self.cancel) });
      }
      let last_form = if rng.chance(1, 3) { RecvForm::Batch } else { RecvForm::Single };
      cops.push(COp::Recv { form: last_form, max: rng.range(1, 3) as u8, timeout_ns: 0, plan: Plan::NONE });
      // every receiver but the first may leave early: a slow or departed receiver must never
      // block the sender for good
      let quota = if self.lifecycle && i > 0 && rng.chance(1, 3) { Some(rng.range(1, 6) as u16) } else { None };
      let at_end = if self.lifecycle { *rng.pick(&[AtEnd::Drop, AtEnd::Drop, AtEnd::Drop, AtEnd::Close, AtEnd::Close, AtEnd::CloseThenUse, AtEnd::CloseThenUse, AtEnd::CloseThenConvertUse, AtEnd::CloseThenCloneUse]) } else { AtEnd::Drop };
      consumers.push(Consumer { ops: cops, quota, at_end });
    }
    let total = ops.iter().map(|o| if let POp::Send { n, .. } = o { *n as u32 } else { 0 }).sum::<u32>();
    SpmcSc { cap, async_ctor, producer: Producer { ops }, consumers, knobs: Knobs::gen(rng, self.faults, 40 * (total + 4)) }
  }

  fn begin(&self, sc: &SpmcSc, record_trace: bool) -> RunCfg {
    ledger_reset();
    let _ = take_events();
    CUR.with(|c| *c.borrow_mut() = Some(Arc::new(sc.clone())));
    sc.knobs.run_cfg(record_trace)
  }

  fn body(&self) -> Arc<dyn Fn() + Send + Sync> {
    Arc::new(spmc_main)
  }

  fn finish(&self, sc: &SpmcSc, out: RunOut) -> Evaluated {
    CUR.with(|c| *c.borrow_mut() = None);
    let run = SpmcRun { out, events: take_events(), ledger: ledger_snapshot() };
    if std::env::var("VERIF_DUMP").is_ok() {
      for e in &run.events {
        println!("  ev actor={} handle={} inv={} ret={} {:?}", e.actor, e.handle, e.inv, e.ret, e.k);
      }
      println!("  failure={:?}", run.out.failure);
    }
    let violations = evaluate(sc, &run);
    let mut states = vec![];
    for e in &run.events {
      match &e.k {
        EvK::Send { form, out: o, is_async, .. } => states.push(crate::core::batch::hash_str(&format!("spmc|S|{:?}|{}|{:?}|{}", form, is_async, o.res, o.sent.min(3)))),
        EvK::Recv { form, out: o, is_async, .. } => states.push(crate::core::batch::hash_str(&format!("spmc|R|{:?}|{}|{:?}|{}", form, is_async, o.res, o.got.len().min(3)))),
        _ => {}
      }
    }
    states.sort();
    states.dedup();
    let delivered = run.events.iter().any(|e| matches!(&e.k, EvK::Recv { out, .. } if !out.got.is_empty()));
    let nontrivial = run.out.stats.switches >= 3 && delivered;
    Evaluated { out: run.out, violations, states, nontrivial }
  }

  fn shrink(&self, sc: &SpmcSc) -> Vec<SpmcSc> {
    let mut out = vec![];
    if sc.consumers.len() > 1 {
      for i in 0..sc.consumers.len() {
        let mut c = sc.clone();
        c.consumers.remove(i);
        out.push(c);
      }
    }
    if sc.producer.ops.len() > 1 {
      for oi in 0..sc.producer.ops.len() {
        let mut c = sc.clone();
        c.producer.ops.remove(oi);
        out.push(c);
      }
    }
    for (ci, p) in sc.consumers.iter().enumerate() {
      if p.ops.len() > 1 {
        for oi in 0..p.ops.len() - 1 {
          let mut c = sc.clone();
          c.consumers[ci].ops.remove(oi);
          out.push(c);
        }
      }
      for (oi, op) in p.ops.iter().enumerate() {
        if let COp::Recv { form, max, timeout_ns, plan } = op {
          if *plan != Plan::NONE {
            let mut c = sc.clone();
            c.consumers[ci].ops[oi] = COp::Recv { form: *form, max: *max, timeout_ns: *timeout_ns, plan: Plan::NONE };
            out.push(c);
          }
          if *form != RecvForm::Single {
            let mut c = sc.clone();
            c.consumers[ci].ops[oi] = COp::Recv { form: RecvForm::Single, max: 1, timeout_ns: 0, plan: *plan };
            out.push(c);
          }
        }
      }
      if p.quota.is_some() {
        let mut c = sc.clone();
        c.consumers[ci].quota = None;
        out.push(c);
      }
      if p.at_end != AtEnd::Drop {
        let mut c = sc.clone();
        c.consumers[ci].at_end = AtEnd::Drop;
        out.push(c);
      }
    }
    for (oi, op) in sc.producer.ops.iter().enumerate() {
      if let POp::Send { form, n, plan } = op {
        if *n > 1 {
          let mut c = sc.clone();
          c.producer.ops[oi] = POp::Send { form: *form, n: n - 1, plan: *plan };
          out.push(c);
        }
        if *plan != Plan::NONE {
          let mut c = sc.clone();
          c.producer.ops[oi] = POp::Send { form: *form, n: *n, plan: Plan::NONE };
          out.push(c);
        }
        if *form != SendForm::Single && *n == 1 {
          let mut c = sc.clone();
          c.producer.ops[oi] = POp::Send { form: SendForm::Single, n: 1, plan: *plan };
          out.push(c);
        }
      }
    }
    if sc.knobs.spurious_rate > 0 || sc.knobs.cas_weak > 0 || sc.knobs.park_return > 0 {
      let mut c = sc.clone();
      c.knobs.spurious_rate = 0;
      c.knobs.cas_weak = 0;
      c.knobs.park_return = 0;
      out.push(c);
    }
    if sc.knobs.mode != ModeSer::Uniform {
      let mut c = sc.clone();
      c.knobs.mode = ModeSer::Uniform;
      out.push(c);
    }
    out.retain(|c| {
      !c.consumers.is_empty()
        && c.consumers[0].quota.is_none()
        && c.producer.ops.iter().any(|o| matches!(o, POp::Send { .. }))
        && c.consumers.iter().all(|k| matches!(k.ops.last(), Some(COp::Recv { form: RecvForm::Single | RecvForm::Batch, plan, .. }) if plan.cancel_after == 0))
    });
    for c in out.iter_mut() {
      for op in c.producer.ops.iter_mut() {
        if let POp::Send { form, n, .. } = op {
          if matches!(form, SendForm::Single | SendForm::Try) || *n == 0 {
            *n = 1;
          }
        }
      }
    }
    out
  }

  fn reseed(&self, sc: &SpmcSc, seed: u64) -> SpmcSc {
    let mut c = sc.clone();
    c.knobs.seed = seed;
    c
  }

  fn components(&self) -> Value {
    json!({
      "real": ["fibre::spmc broadcast ring buffer (sync + async handles, futures, stream), internal::left_right"],
      "stub": ["atomics / park / spin hints -> shuttle-backed facade", "Instant / park_timeout -> virtual clock", "executor -> shuttle block_on"],
      "unmodelled": ["weak memory orderings"]
    })
  }
}

/// C07 oracle (plus the shared C04 / C09 rules and the liveness classes).
pub fn evaluate(sc: &SpmcSc, run: &SpmcRun) -> Vec<Violation> {
  let fl = "spmc_broadcast";
  let mut vs = vec![];
  let evs = &run.events;
  let live_prop = if sc.any_async() { "C06" } else { "C05" };
  if let Some(f) = &run.out.failure {
    let class = match f.kind {
      FailKind::Deadlock => "deadlock",
      FailKind::StepBound => "step_bound",
      FailKind::Panic => "panic",
    };
    let mut extra = vec![("cancelled_or_timed", any_cancel(evs).to_string())];
    if f.kind == FailKind::Panic {
      extra.push(("where", f.location.clone()));
    }
    // a sender parked behind a slow or departed receiver that is never released is C07's
    // back-pressure clause as much as C05/C06's: report under both
    vs.push(viol_named(fl, live_prop, class, &extra, format!("{} at {}", f.message, f.location)));
    vs.push(viol_named(fl, "C07", class, &extra, format!("{} at {}", f.message, f.location)));
    return vs;
  }

  // the sent sequence (single producer: ids are increasing in send order)
  let mut sent: Vec<u32> = vec![];
  let mut sent_ret: BTreeMap<u32, u64> = BTreeMap::new();
  let mut unknown: Vec<u32> = vec![];
  for e in evs {
    if let EvK::Send { form, input, out, .. } = &e.k {
      if out.res == SRes::Unsupported {
        continue;
      }
      if out.unknown.contains(&u32::MAX) {
        vs.push(viol_named(fl, "C07", "batch_count_mismatch", &[], format!("in-place send reported {} for input {:?}", out.sent, input)));
        continue;
      }
      if out.res == SRes::Cancelled && matches!(form, SendForm::Single | SendForm::Batch) {
        unknown.extend(out.unknown.iter().copied());
        continue;
      }
      if matches!(form, SendForm::Single) {
        if out.res == SRes::Ok {
          sent.push(input[0]);
          sent_ret.insert(input[0], e.ret);
        }
        continue;
      }
      if out.sent + out.back.len() != input.len() || out.back[..] != input[out.sent.min(input.len())..] {
        vs.push(viol_named(fl, "C07", "batch_error_accounting", &[("form", format!("{form:?}"))], format!("input {:?}: sent={} back={:?}", input, out.sent, out.back)));
        continue;
      }
      for id in &input[..out.sent] {
        sent.push(*id);
        sent_ret.insert(*id, e.ret);
      }
    }
  }
  // A cancelled by-value send may or may not have been published: if any receiver saw such a
  // token it belongs to the sequence at its id position (ids are monotone in program order).
  let mut seen_unknown: Vec<u32> = vec![];
  for e in evs {
    if let EvK::Recv { out, .. } = &e.k {
      for id in &out.got {
        if unknown.contains(id) && !seen_unknown.contains(id) {
          seen_unknown.push(*id);
        }
      }
    }
  }
  sent.extend(seen_unknown.iter().copied());
  sent.sort();
  let pos: BTreeMap<u32, usize> = sent.iter().enumerate().map(|(i, id)| (*id, i)).collect();

  // per receiver handle: received ids in order; parent links
  let mut recvd: BTreeMap<u16, Vec<(u32, u64)>> = BTreeMap::new(); // handle -> (id, ret stamp)
  let mut parent: BTreeMap<u16, (u16, u64)> = BTreeMap::new(); // clone -> (parent, clone stamp)
  let mut saw_disc: BTreeMap<u16, u64> = BTreeMap::new();
  let mut cancelled_recv: BTreeMap<u16, bool> = BTreeMap::new();
  for e in evs {
    match &e.k {
      EvK::Recv { out, .. } => {
        for id in &out.got {
          if *id == u32::MAX {
            vs.push(viol_named(fl, "C07", "batch_count_mismatch", &[], "in-place receive count mismatch".into()));
            continue;
          }
          recvd.entry(e.handle).or_default().push((*id, e.ret));
        }
        if out.res == RRes::Disconnected {
          saw_disc.entry(e.handle).or_insert(e.ret);
        }
        if out.res == RRes::Cancelled {
          cancelled_recv.insert(e.handle, true);
        }
      }
      EvK::RxClone { to } => {
        parent.insert(*to, (e.handle, e.inv));
        recvd.entry(*to).or_default();
      }
      _ => {}
    }
  }
  let born = super::oracle::born_of_closed(evs, false);
  for (h, seq) in &recvd {
    // expected start position
    let start = match parent.get(h) {
      None => 0usize,
      Some((p, stamp)) => {
        // the clone starts right after what its parent had received when it was cloned; the
        // clone is made by the parent's own thread between two of its receives
        start_of(*p, &parent, &recvd, &pos, *stamp)
      }
    };
    let mut expect = start;
    for (id, _) in seq {
      match pos.get(id) {
        None => {
          vs.push(viol_named(fl, "C07", "phantom_value", &[], format!("receiver handle {h} got token {id} that was not sent successfully")));
          break;
        }
        Some(p) => {
          if *p != expect {
            let class = if *p < expect { "duplicate_or_reordered" } else { "gap_value_skipped" };
            let cancelled = cancelled_recv.get(h).copied().unwrap_or(false);
            vs.push(viol_named(
              fl,
              "C07",
              class,
              &[("recv_future_cancelled", cancelled.to_string())],
              format!("receiver handle {h} (start position {start}) expected the value at position {expect} ({:?}) but got token {id} (position {p}); sent sequence {:?}", sent.get(expect), sent),
            ));
            break;
          }
          expect += 1;
        }
      }
    }
    // a receiver that drained to Disconnected must have seen everything up to the end
    if let Some(_) = saw_disc.get(h) {
      let own_closed = super::oracle::handle_closed_before(evs, *h, false, u64::MAX) && false;
      let _ = own_closed;
      let closed_before_disc = super::oracle::handle_closed_before(evs, *h, false, *saw_disc.get(h).unwrap());
      // (a clone made from a closed handle says Disconnected about itself, not about the sender)
      if !closed_before_disc && !born.contains(h) && expect < sent.len() && vs.iter().all(|v| v.class != "gap_value_skipped" && v.class != "duplicate_or_reordered") {
        let cancelled = cancelled_recv.get(h).copied().unwrap_or(false);
        vs.push(viol_named(
          fl,
          "C07",
          "disconnected_before_drained",
          &[("recv_future_cancelled", cancelled.to_string())],
          format!("receiver handle {h} observed Disconnected after {} of {} values of its view (start {start})", expect - start, sent.len() - start.min(sent.len())),
        ));
      }
    }
  }

  // back-pressure: at every successful-send return, no live receiver may lag more than capacity
  {
    let handles: Vec<u16> = recvd.keys().copied().collect();
    for (id, t) in &sent_ret {
      let sent_cnt = pos[id] + 1; // values published up to and including this one (lower bound)
      for h in &handles {
        // live throughout: created before the send returned, not closed/dropped before t
        let created_at = parent.get(h).map(|(_, s)| *s).unwrap_or(0);
        if created_at >= *t || handle_gone_before(evs, *h, false, *t) || born.contains(h) {
          continue;
        }
        let start = match parent.get(h) {
          None => 0,
          Some((p, stamp)) => start_of(*p, &parent, &recvd, &pos, *stamp),
        };
        // received-or-in-flight count at t
        let mut taken = 0usize;
        for e in evs {
          if e.handle != *h {
            continue;
          }
          if let EvK::Recv { out, max, .. } = &e.k {
            if e.inv < *t {
              // completed before t or in flight at t: count what it (eventually) returned;
              // a cancelled receive may have consumed up to `max`
              taken += if out.res == RRes::Cancelled { (*max).max(1) } else { out.got.iter().filter(|x| **x != u32::MAX).count() };
            }
          }
        }
        if sent_cnt > start + taken + sc.cap {
          vs.push(viol_named(
            fl,
            "C07",
            "unread_value_overwritten_risk",
            &[],
            format!("send of token {id} returned at {t} with {sent_cnt} values published while live receiver handle {h} (start {start}) had taken at most {taken}: more than capacity {} unread", sc.cap),
          ));
          break;
        }
      }
    }
  }
  for e in evs {
    if let EvK::Observe { len: Some(l), cap: Some(c), .. } = &e.k {
      if l > c {
        vs.push(viol_named(fl, "C03", "len_exceeds_capacity", &[], format!("len() = {l} > capacity() = {c}")));
      }
    }
  }
  c04_rules(fl, false, evs, &mut vs);
  c09_rules(fl, evs, &run.ledger, &mut vs);
  vs
}

/// position (index into the sent sequence) at which handle `h` stood at stamp `at`
fn start_of(h: u16, parent: &BTreeMap<u16, (u16, u64)>, recvd: &BTreeMap<u16, Vec<(u32, u64)>>, pos: &BTreeMap<u32, usize>, at: u64) -> usize {
  let base = match parent.get(&h) {
    None => 0,
    Some((p, stamp)) => start_of(*p, parent, recvd, pos, *stamp),
  };
  let got = recvd.get(&h).map(|v| v.iter().filter(|(_, ret)| *ret <= at).count()).unwrap_or(0);
  let _ = pos;
  base + got
}
