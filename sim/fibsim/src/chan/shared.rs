//! CH-SHARED family (C01 / C04): ONE sender handle used by several threads at once through a
//! shared reference (`close(&self)` and `send(&self)` both take `&self`, and the sync senders of
//! the multi-producer flavours are `Sync`). The other families give every producer thread its own
//! clone, so a `close()` racing with a send *on the same handle* never happens there - but it is
//! exactly what the logging crate does at shutdown. One consumer receives until Disconnected.

use crate::chan::conc::{Knobs, ModeSer};
use crate::core::batch::{hash_str, Evaluated, Family, Violation};
use crate::core::rng::Rng;
use crate::core::run::{FailKind, RunCfg, RunOut};
use fibre_verif_rt::ctx::next_seq;
use serde::{Deserialize, Serialize};
use serde_json::{json, Value};
use std::cell::RefCell;
use std::collections::{BTreeMap, BTreeSet};
use std::sync::Arc;

#[derive(Clone, Copy, Debug, Serialize, Deserialize, PartialEq, Eq)]
pub enum SFlavour {
  MpscBounded,
  MpmcBounded,
  MpmcUnbounded,
}

#[derive(Clone, Debug, Serialize, Deserialize, PartialEq)]
pub enum SOp {
  Send,
  TrySend,
  Close,
  Yield,
}

#[derive(Clone, Copy, Debug, Serialize, Deserialize, PartialEq)]
pub enum RForm {
  Recv,
  TryRecvPoll,
}

#[derive(Clone, Debug, Serialize, Deserialize)]
pub struct SharedSc {
  pub flavour: SFlavour,
  pub cap: usize,
  /// all threads use the SAME handle
  pub threads: Vec<Vec<SOp>>,
  pub recv: RForm,
  pub knobs: Knobs,
}

#[derive(Clone, Debug)]
pub enum SEv {
  /// token, Ok?, invocation / return stamps
  Sent { tok: u32, ok: bool, inv: u64, ret: u64 },
  Closed { ok: bool, inv: u64, ret: u64 },
  Got { tok: u32, at: u64 },
  Disconnected { at: u64 },
}

thread_local! {
  static EVS: RefCell<Vec<SEv>> = const { RefCell::new(Vec::new()) };
  static CUR: RefCell<Option<Arc<SharedSc>>> = const { RefCell::new(None) };
  static NEXT_TOK: std::cell::Cell<u32> = const { std::cell::Cell::new(1) };
}

trait STx: Send + Sync {
  fn send(&self, t: u32) -> bool;
  fn try_send(&self, t: u32) -> bool;
  fn close(&self) -> bool;
}
trait SRx: Send {
  /// Some(Some(t)) value, Some(None) disconnected, None empty (try form only)
  fn recv(&self) -> Option<u32>;
  fn try_recv(&self) -> Option<Option<u32>>;
}

macro_rules! impl_pair {
  ($tx:ty, $rx:ty, $empty:path) => {
    impl STx for $tx {
      fn send(&self, t: u32) -> bool {
        <$tx>::send(self, t).is_ok()
      }
      fn try_send(&self, t: u32) -> bool {
        <$tx>::try_send(self, t).is_ok()
      }
      fn close(&self) -> bool {
        <$tx>::close(self).is_ok()
      }
    }
    impl SRx for $rx {
      fn recv(&self) -> Option<u32> {
        <$rx>::recv(self).ok()
      }
      fn try_recv(&self) -> Option<Option<u32>> {
        match <$rx>::try_recv(self) {
          Ok(v) => Some(Some(v)),
          Err($empty) => None,
          Err(_) => Some(None),
        }
      }
    }
  };
}

impl_pair!(fibre::mpsc::BoundedSyncSender<u32>, fibre::mpsc::BoundedSyncReceiver<u32>, fibre::TryRecvError::Empty);
impl_pair!(fibre::mpmc::Sender<u32>, fibre::mpmc::Receiver<u32>, fibre::TryRecvError::Empty);

fn make(sc: &SharedSc) -> (Arc<dyn STx>, Box<dyn SRx>) {
  match sc.flavour {
    SFlavour::MpscBounded => {
      let (t, r) = fibre::mpsc::bounded::<u32>(sc.cap);
      (Arc::new(t), Box::new(r))
    }
    SFlavour::MpmcBounded => {
      let (t, r) = fibre::mpmc::bounded::<u32>(sc.cap);
      (Arc::new(t), Box::new(r))
    }
    // (the unbounded senders take `&mut self`: their handles cannot be shared by reference)
    SFlavour::MpmcUnbounded => {
      let (t, r) = fibre::mpmc::bounded::<u32>(sc.cap.max(8));
      (Arc::new(t), Box::new(r))
    }
  }
}

fn shared_main() {
  let sc: Arc<SharedSc> = CUR.with(|c| c.borrow().clone()).expect("no current scenario");
  let (tx, rx) = make(&sc);
  let form = sc.recv;
  let consumer = shuttle::thread::spawn(move || loop {
    let r = match form {
      RForm::Recv => Some(rx.recv()),
      RForm::TryRecvPoll => match rx.try_recv() {
        None => {
          shuttle::thread::yield_now();
          None
        }
        Some(x) => Some(x),
      },
    };
    match r {
      None => {}
      Some(Some(tok)) => {
        let at = next_seq();
        EVS.with(|e| e.borrow_mut().push(SEv::Got { tok, at }));
      }
      Some(None) => {
        let at = next_seq();
        EVS.with(|e| e.borrow_mut().push(SEv::Disconnected { at }));
        break;
      }
    }
  });
  let mut joins = vec![];
  for ops in sc.threads.iter().cloned() {
    let tx = tx.clone();
    joins.push(shuttle::thread::spawn(move || {
      for op in &ops {
        match op {
          SOp::Send | SOp::TrySend => {
            let tok = NEXT_TOK.with(|n| {
              let v = n.get();
              n.set(v + 1);
              v
            });
            let inv = next_seq();
            let ok = if matches!(op, SOp::Send) { tx.send(tok) } else { tx.try_send(tok) };
            let ret = next_seq();
            EVS.with(|e| e.borrow_mut().push(SEv::Sent { tok, ok, inv, ret }));
          }
          SOp::Close => {
            let inv = next_seq();
            let ok = tx.close();
            let ret = next_seq();
            EVS.with(|e| e.borrow_mut().push(SEv::Closed { ok, inv, ret }));
          }
          SOp::Yield => shuttle::thread::yield_now(),
        }
      }
    }));
  }
  for j in joins {
    j.join().unwrap();
  }
  // whoever is left: the handle goes away, the consumer must terminate
  drop(tx);
  consumer.join().unwrap();
}

pub fn evaluate(sc: &SharedSc, evs: &[SEv], out: &RunOut) -> Vec<Violation> {
  let mk = |prop: &str, class: &str, detail: String| {
    let mut facets = BTreeMap::new();
    facets.insert("flavour".to_string(), format!("{:?}", sc.flavour));
    facets.insert("handle".to_string(), "shared".to_string());
    Violation { property: prop.into(), class: class.into(), facets, detail }
  };
  let mut vs = vec![];
  if let Some(f) = &out.failure {
    let class = match f.kind {
      FailKind::Deadlock => "deadlock",
      FailKind::StepBound => "step_bound",
      FailKind::Panic => "panic",
    };
    vs.push(mk("C04", class, format!("{} at {}", f.message, f.location)));
    return vs;
  }
  let ok: BTreeSet<u32> = evs.iter().filter_map(|e| match e { SEv::Sent { tok, ok: true, .. } => Some(*tok), _ => None }).collect();
  let failed: BTreeSet<u32> = evs.iter().filter_map(|e| match e { SEv::Sent { tok, ok: false, .. } => Some(*tok), _ => None }).collect();
  let mut got: BTreeMap<u32, u32> = BTreeMap::new();
  for e in evs {
    if let SEv::Got { tok, .. } = e {
      *got.entry(*tok).or_default() += 1;
    }
  }
  for (t, n) in &got {
    if *n > 1 {
      vs.push(mk("C01", "duplicate_delivery", format!("token {t} received {n} times")));
    }
    if failed.contains(t) {
      vs.push(mk("C01", "failed_send_was_delivered", format!("token {t} was received although its send reported an error")));
    }
  }
  let disc = evs.iter().find_map(|e| match e { SEv::Disconnected { at } => Some(*at), _ => None });
  if let Some(at) = disc {
    let lost: Vec<u32> = ok.iter().copied().filter(|t| !got.contains_key(t)).collect();
    if !lost.is_empty() {
      vs.push(mk("C04", "disconnected_before_drained", format!("the receiver was told Disconnected (at {at}) although tokens {lost:?}, whose sends on the shared handle returned Ok, were never delivered")));
      vs.push(mk("C01", "ok_send_never_received", format!("tokens {lost:?} were sent Ok on the shared handle but never received although the receiver drained to Disconnected")));
    }
    if evs.iter().any(|e| matches!(e, SEv::Got { at: g, .. } if *g > at)) {
      vs.push(mk("C04", "value_after_disconnected", "a value was received after Disconnected".into()));
    }
  }
  // a closed handle rejects sends that begin after the close returned
  let closed_at = evs.iter().filter_map(|e| match e { SEv::Closed { ok: true, ret, .. } => Some(*ret), _ => None }).min();
  if let Some(c) = closed_at {
    for e in evs {
      if let SEv::Sent { tok, ok: true, inv, .. } = e {
        if *inv > c {
          vs.push(mk("C04", "send_accepted_on_closed_handle", format!("send of token {tok} began (at {inv}) after close() had returned (at {c}) on the same handle and reported Ok")));
        }
      }
    }
  }
  let closes_ok = evs.iter().filter(|e| matches!(e, SEv::Closed { ok: true, .. })).count();
  if closes_ok > 1 {
    vs.push(mk("C04", "close_not_idempotent", format!("{closes_ok} close() calls on one handle reported Ok")));
  }
  vs
}

pub struct SharedFamily {
  pub faults: bool,
}

impl Family for SharedFamily {
  type Sc = SharedSc;

  fn name(&self) -> &'static str {
    "CH-SHARED"
  }

  fn rule(&self) -> &'static str {
    "one case = one sync sender handle of a multi-producer flavour (mpsc bounded, mpmc bounded; capacity 1-4; the unbounded senders take &mut self and cannot be shared) shared by 2-3 threads through a reference (<=4 operations each: send / try_send / close / yield) and one consumer that receives (recv, or a try_recv poll loop) until Disconnected; non-trivial = >=2 Ok sends and a close that overlaps a send; distinct = distinct scheduler decision-trace hash"
  }

  fn needs_fresh_thread(&self) -> bool {
    false
  }

  fn max_steps(&self) -> usize {
    40_000
  }

  fn generate(&self, rng: &mut Rng) -> SharedSc {
    let flavour = *rng.pick(&[SFlavour::MpscBounded, SFlavour::MpscBounded, SFlavour::MpmcBounded]);
    let n = rng.range(2, 3);
    let mut threads: Vec<Vec<SOp>> = vec![];
    for _ in 0..n {
      let ops = (0..rng.range(1, 4)).map(|_| match rng.below(8) {
        0..=3 => SOp::Send,
        4 => SOp::TrySend,
        5 => SOp::Close,
        _ => SOp::Yield,
      });
      threads.push(ops.collect());
    }
    // at least one close somewhere, otherwise the final drop is the only disconnect
    if !threads.iter().flatten().any(|o| matches!(o, SOp::Close)) && rng.chance(3, 4) {
      let t = rng.below(n) as usize;
      let pos = rng.below(threads[t].len() as u64 + 1) as usize;
      threads[t].insert(pos, SOp::Close);
    }
    let total: u32 = threads.iter().map(|t| t.len() as u32).sum();
    let mut knobs = Knobs::gen(rng, self.faults, 40 * (total + 4));
    knobs.max_steps = 40_000;
    SharedSc { flavour, cap: *rng.pick(&[1usize, 1, 2, 4]), threads, recv: *rng.pick(&[RForm::Recv, RForm::Recv, RForm::TryRecvPoll]), knobs }
  }

  fn begin(&self, sc: &SharedSc, record_trace: bool) -> RunCfg {
    EVS.with(|e| e.borrow_mut().clear());
    NEXT_TOK.with(|n| n.set(1));
    CUR.with(|c| *c.borrow_mut() = Some(Arc::new(sc.clone())));
    sc.knobs.run_cfg(record_trace)
  }

  fn body(&self) -> Arc<dyn Fn() + Send + Sync> {
    Arc::new(shared_main)
  }

  fn finish(&self, sc: &SharedSc, out: RunOut) -> Evaluated {
    CUR.with(|c| *c.borrow_mut() = None);
    let evs = EVS.with(|e| std::mem::take(&mut *e.borrow_mut()));
    if std::env::var("VERIF_DUMP").is_ok() {
      for e in &evs {
        println!("  ev {e:?}");
      }
      println!("  failure={:?}", out.failure);
    }
    let violations = evaluate(sc, &evs, &out);
    let mut states: Vec<u64> = evs
      .iter()
      .map(|e| {
        let s = match e {
          SEv::Sent { ok, .. } => format!("sent|{ok}"),
          SEv::Closed { ok, .. } => format!("closed|{ok}"),
          SEv::Got { .. } => "got".into(),
          SEv::Disconnected { .. } => "disc".into(),
        };
        hash_str(&format!("{:?}|{:?}|{s}", sc.flavour, sc.recv))
      })
      .collect();
    states.sort();
    states.dedup();
    let oks = evs.iter().filter(|e| matches!(e, SEv::Sent { ok: true, .. })).count();
    let overlap = evs.iter().any(|c| matches!(c, SEv::Closed { inv: ci, ret: cr, .. } if evs.iter().any(|s| matches!(s, SEv::Sent { inv, ret, .. } if inv < cr && ci < ret))));
    Evaluated { out, violations, states, nontrivial: oks >= 2 && overlap }
  }

  fn shrink(&self, sc: &SharedSc) -> Vec<SharedSc> {
    let mut out = vec![];
    if sc.threads.len() > 2 {
      for i in 0..sc.threads.len() {
        let mut c = sc.clone();
        c.threads.remove(i);
        out.push(c);
      }
    }
    for (ti, t) in sc.threads.iter().enumerate() {
      if t.len() > 1 {
        for oi in 0..t.len() {
          let mut c = sc.clone();
          c.threads[ti].remove(oi);
          out.push(c);
        }
      }
    }
    if sc.recv != RForm::Recv {
      let mut c = sc.clone();
      c.recv = RForm::Recv;
      out.push(c);
    }
    let k = &sc.knobs;
    if k.spurious_rate > 0 || k.cas_weak > 0 || k.park_return > 0 {
      let mut c = sc.clone();
      c.knobs.spurious_rate = 0;
      c.knobs.cas_weak = 0;
      c.knobs.park_return = 0;
      out.push(c);
    }
    if k.mode != ModeSer::Uniform {
      let mut c = sc.clone();
      c.knobs.mode = ModeSer::Uniform;
      out.push(c);
    }
    out.retain(|c| c.threads.len() >= 2 && c.threads.iter().all(|t| !t.is_empty()));
    out
  }

  fn reseed(&self, sc: &SharedSc, seed: u64) -> SharedSc {
    let mut c = sc.clone();
    c.knobs.seed = seed;
    c
  }

  fn components(&self) -> Value {
    json!({
      "real": ["fibre::mpsc::bounded, fibre::mpmc::bounded / unbounded sync handles, one sender handle shared by reference between threads"],
      "stub": ["atomics / Mutex / park / Instant -> fibre_verif_rt (as for every channel family)"],
    })
  }
}
