//! Oracles over a CH-CONC history. Every rule is a *necessary* condition of the property it is
//! filed under (see DESIGN.md §6); stamps are the simulator's global event sequence numbers.

use super::adapt::{Flavour, RRes, SRes};
use super::conc::{token_producer, ChanRun, ChanSc, Ev, EvK, RecvForm, SendForm};
use crate::core::batch::Violation;
use crate::core::run::FailKind;
use std::collections::{BTreeMap, BTreeSet, HashMap};

fn viol(sc: &ChanSc, property: &str, class: &str, extra: &[(&str, String)], detail: String) -> Violation {
  viol_named(sc.flavour.name(), property, class, extra, detail)
}

pub fn viol_named(flavour: &str, property: &str, class: &str, extra: &[(&str, String)], detail: String) -> Violation {
  let mut facets = BTreeMap::new();
  facets.insert("flavour".to_string(), flavour.to_string());
  for (k, v) in extra {
    facets.insert(k.to_string(), v.clone());
  }
  Violation { property: property.into(), class: class.into(), facets, detail }
}

pub fn recv_outcome_seen(evs: &[Ev], res: RRes) -> bool {
  evs.iter().any(|e| matches!(&e.k, EvK::Recv { out, .. } if out.res == res))
}

pub fn recv_forms_used(evs: &[Ev]) -> String {
  let mut s: BTreeSet<String> = BTreeSet::new();
  for e in evs {
    if let EvK::Recv { form, out, is_async, .. } = &e.k {
      if matches!(out.res, RRes::Timeout | RRes::Cancelled) {
        s.insert(format!("{}{:?}:{:?}", if *is_async { "async_" } else { "" }, form, out.res));
      }
    }
  }
  s.into_iter().collect::<Vec<_>>().join(",")
}

pub fn evaluate(sc: &ChanSc, run: &ChanRun) -> Vec<Violation> {
  let mut vs = vec![];
  let evs = &run.events;
  let live_prop = if sc.any_async() { "C06" } else { "C05" };

  if let Some(f) = &run.out.failure {
    let (class, prop) = match f.kind {
      FailKind::Deadlock => ("deadlock", live_prop),
      FailKind::StepBound => ("step_bound", live_prop),
      FailKind::Panic => ("panic", live_prop),
    };
    let mut extra = vec![];
    if f.kind == FailKind::Panic {
      extra.push(("where", f.location.clone()));
    }
    extra.push(("cancelled_or_timed", (!recv_forms_used(evs).is_empty() || any_cancel(evs)).to_string()));
    vs.push(viol(sc, prop, class, &extra, format!("{} at {}", f.message, f.location)));
    // Everybody is blocked although one whole side is gone: whoever still waits was owed
    // Disconnected / Closed (C04), whatever else it is. Handle sets are complete even in an
    // aborted history: every handle but the first of each side is announced by a clone event.
    if f.kind == FailKind::Deadlock {
      for (tx, first) in [(true, 0u16), (false, 1u16)] {
        let mut all: BTreeSet<u16> = BTreeSet::new();
        all.insert(first);
        for e in evs {
          match (&e.k, tx) {
            (EvK::TxClone { to }, true) | (EvK::RxClone { to }, false) => {
              all.insert(*to);
            }
            _ => {}
          }
        }
        let born = born_of_closed(evs, tx);
        all.retain(|h| !born.contains(h));
        let gone = |h: u16| evs.iter().any(|e| e.handle == h && matches!((&e.k, tx), (EvK::TxDrop, true) | (EvK::TxClose { ok: true }, true) | (EvK::RxDrop, false) | (EvK::RxClose { ok: true }, false)));
        if all.iter().all(|h| gone(*h)) {
          let class = if tx { "receiver_blocked_forever_after_last_sender_gone" } else { "sender_blocked_forever_after_last_receiver_gone" };
          vs.push(viol(sc, "C04", class, &[], format!("every {} handle {:?} was dropped or closed, yet the run ends with all remaining threads blocked: {}", if tx { "sender" } else { "receiver" }, all, f.message)));
        }
      }
    }
    // the history of an aborted run is incomplete: the remaining oracles need a complete one
    return vs;
  }
  // ---- token bookkeeping -------------------------------------------------------------------
  let mut ok_tokens: BTreeMap<u32, (u64, u64, u16)> = BTreeMap::new(); // id -> (inv, ret, tx handle)
  let mut back: BTreeSet<u32> = BTreeSet::new();
  let mut consumed_by_failed_send: BTreeSet<u32> = BTreeSet::new();
  let mut unknown: BTreeSet<u32> = BTreeSet::new();
  for e in evs {
    if let EvK::Send { form, input, out, .. } = &e.k {
      if out.res == SRes::Unsupported {
        for id in &out.back {
          back.insert(*id);
        }
        continue;
      }
      if out.unknown.contains(&u32::MAX) {
        vs.push(viol(sc, "C01", "batch_count_mismatch", &[("form", format!("{form:?}"))], format!("in-place send reported {} but {} items left the vector", out.sent, input.len() - out.back.len())));
        continue;
      }
      for id in &out.unknown {
        unknown.insert(*id);
      }
      if out.res == SRes::Cancelled && matches!(form, SendForm::Single | SendForm::Batch) {
        continue;
      }
      let single_blocking = matches!(form, SendForm::Single);
      if single_blocking {
        if out.res == SRes::Ok {
          ok_tokens.insert(input[0], (e.inv, e.ret, e.handle));
        } else {
          consumed_by_failed_send.insert(input[0]);
        }
        continue;
      }
      // every other form accounts for its whole input: accepted prefix + handed-back suffix
      if out.sent + out.back.len() != input.len() || out.back[..] != input[out.sent.min(input.len())..] {
        vs.push(viol(
          sc,
          "C01",
          "batch_error_accounting",
          &[("form", format!("{form:?}")), ("res", format!("{:?}", out.res))],
          format!("input {:?}: sent={} back={:?} (sent + unsent must equal the input, unsent in order)", input, out.sent, out.back),
        ));
        continue;
      }
      for id in &input[..out.sent] {
        ok_tokens.insert(*id, (e.inv, e.ret, e.handle));
      }
      for id in &out.back {
        back.insert(*id);
      }
    }
  }

  // received tokens: id -> list of (actor, rx handle, op index, position)
  let mut received: BTreeMap<u32, Vec<(u8, u16, usize)>> = BTreeMap::new();
  for (i, e) in evs.iter().enumerate() {
    if let EvK::Recv { form, out, .. } = &e.k {
      for id in &out.got {
        if *id == u32::MAX {
          vs.push(viol(sc, "C01", "batch_count_mismatch", &[("form", format!("{form:?}"))], "in-place receive reported a count different from the items it appended".into()));
          continue;
        }
        received.entry(*id).or_default().push((e.actor, e.handle, i));
      }
    }
  }

  // C01: at most once, nothing phantom, failed operations have no effect
  for (id, who) in &received {
    if who.len() > 1 {
      vs.push(viol(sc, "C01", "duplicate_delivery", &[], format!("token {id} received {} times: {:?}", who.len(), who)));
    }
    if !ok_tokens.contains_key(id) && !unknown.contains(id) {
      let class = if back.contains(id) || consumed_by_failed_send.contains(id) { "failed_send_was_delivered" } else { "phantom_value" };
      vs.push(viol(sc, "C01", class, &[], format!("token {id} was received but its send did not report success")));
    }
  }

  // C01: every Ok send is received, provided some receiver kept receiving until Disconnected
  // (a handle that was itself closed, or cloned from a closed one, says Disconnected about itself)
  let born_rx = born_of_closed(evs, false);
  let drained = evs.iter().any(|e| matches!(&e.k, EvK::Recv { out, .. } if out.res == RRes::Disconnected) && !handle_closed_before(evs, e.handle, false, e.inv) && !born_rx.contains(&e.handle));
  if drained {
    let lost: Vec<u32> = ok_tokens.keys().copied().filter(|id| !received.contains_key(id)).collect();
    if !lost.is_empty() {
      let timed = recv_forms_used(evs);
      vs.push(viol(
        sc,
        "C01",
        "ok_send_never_received",
        &[("recv_future_cancelled", recv_outcome_seen(evs, RRes::Cancelled).to_string()), ("recv_timed_out", recv_outcome_seen(evs, RRes::Timeout).to_string())],
        format!("tokens {lost:?} were sent Ok but never received although a receiver drained to Disconnected; timed/cancelled receives in run: [{timed}]"),
      ));
      if !recv_outcome_seen(evs, RRes::Cancelled) && !recv_outcome_seen(evs, RRes::Timeout) {
        // the same loss seen from C04: Disconnected was reported before the buffer was drained
        // (no receive was cancelled or timed out, so nothing else can have taken the tokens)
        vs.push(viol(sc, "C04", "disconnected_before_drained", &[], format!("a receiver was told Disconnected although tokens {lost:?}, whose sends had returned Ok, were never delivered to anyone")));
      }
      if any_cancel(evs) {
        // the same loss seen from C06: dropping a pending future must not lose a message
        vs.push(viol(
          sc,
          "C06",
          "message_lost_with_cancelled_future",
          &[("recv_future_cancelled", recv_outcome_seen(evs, RRes::Cancelled).to_string())],
          format!("tokens {lost:?} were sent Ok but never received in a run that dropped pending futures"),
        ));
      }
    }
  }

  // C05/C06 (hold-open variant): everything sent was eventually received, but only after the
  // main thread gave up waiting and disconnected: a receiver slept while values were available.
  if evs.iter().any(|e| matches!(e.k, EvK::HoldOpenTimeout)) {
    let all_received = ok_tokens.keys().all(|id| received.contains_key(id));
    if all_received {
      vs.push(viol(
        sc,
        live_prop,
        "stalled_until_disconnect",
        &[("recv_future_cancelled", recv_outcome_seen(evs, RRes::Cancelled).to_string()), ("send_future_cancelled", evs.iter().any(|e| matches!(&e.k, EvK::Send { out, .. } if out.res == SRes::Cancelled)).to_string())],
        format!("values were available but no receiver took them during {} scheduling rounds; they were only received after the last sender was dropped", super::conc::HOLD_OPEN_YIELDS),
      ));
    }
  }

  // C05/C06 (idle-consumer variant): a consumer sat idle and for 40 consecutive scheduling
  // rounds it was the only thread that could run at all - every other thread blocked or parked
  // - while the channel had room and some producer had not finished: that producer is asleep
  // in a send that has become possible. (A certificate of the state, not a timing judgement.)
  for e in evs {
    if let EvK::Pause { rounds, end: (es, er, el), cap, producers_done, saw_empty, quiescent, .. } = &e.k {
      if *quiescent && !*producers_done && *el < *cap {
        vs.push(viol(
          sc,
          live_prop,
          "sender_stalled_while_space_available",
          &[("send_future_cancelled", evs.iter().any(|x| matches!(&x.k, EvK::Send { out, .. } if out.res == SRes::Cancelled)).to_string()), ("consumer_saw_empty", saw_empty.to_string())],
          format!("receiver handle {} sat idle (up to {rounds} scheduling rounds); for 40 consecutive rounds it was the only thread able to run, len() was {el} < capacity {cap}, {es} tokens had been sent and {er} received, yet a producer had not finished: it is asleep although it could send", e.handle),
        ));
      }
    }
  }

  // C02: per receiver handle, each sender handle's tokens arrive in send order
  {
    let mut last: HashMap<(u16, u16), u32> = HashMap::new();
    for e in evs {
      if let EvK::Recv { out, .. } = &e.k {
        for id in &out.got {
          if let Some((_, _, txh)) = ok_tokens.get(id) {
            let key = (e.handle, *txh);
            if let Some(prev) = last.get(&key) {
              if token_producer(*prev) == token_producer(*id) && *id <= *prev {
                vs.push(viol(sc, "C02", "fifo_order_violated", &[], format!("receiver handle {} got token {} after token {} of the same sender handle {}", e.handle, id, prev, txh)));
              }
            }
            last.insert(key, *id);
          }
        }
      }
    }
  }

  // C03: occupancy bound, observer samples
  if let Some(n) = sc.flavour.bound(sc.cap) {
    // candidate stamps: returns of successful sends
    let mut recvs: Vec<(u64, u64, usize)> = vec![]; // inv, ret, k
    for e in evs {
      if let EvK::Recv { out, max, .. } = &e.k {
        let mut k = out.got.iter().filter(|x| **x != u32::MAX).count();
        if out.res == RRes::Cancelled {
          // a receive future dropped while pending may already have been handed values (they
          // are lost with it, which is C01/C06's business): it did pair with the senders
          k = (*max).max(1);
        }
        if k > 0 {
          recvs.push((e.inv, e.ret, k));
        }
      }
    }
    let mut sends: Vec<(u64, usize)> = vec![]; // ret, count
    for e in evs {
      if let EvK::Send { out, .. } = &e.k {
        if out.sent > 0 && out.res != SRes::Unsupported {
          sends.push((e.ret, out.sent));
        }
      }
    }
    for (t, _) in &sends {
      let sent: usize = sends.iter().filter(|(r, _)| r <= t).map(|(_, c)| *c).sum();
      let done: usize = recvs.iter().filter(|(_, r, _)| r <= t).map(|(_, _, k)| *k).sum();
      let inflight: usize = recvs.iter().filter(|(i, r, _)| i < t && r > t).map(|(_, _, k)| *k).sum();
      if sent > done + inflight + n {
        vs.push(viol(
          sc,
          "C03",
          "capacity_exceeded",
          &[],
          format!("at stamp {t}: {sent} values sent Ok, {done} received, {inflight} in receives in flight, capacity {n}: at least {} buffered", sent - done - inflight),
        ));
        break;
      }
    }
  }
  if sc.flavour == Flavour::Oneshot && ok_tokens.len() > 1 {
    vs.push(viol(sc, "C03", "oneshot_second_send_succeeded", &[], format!("{} sends reported success on a oneshot channel: {:?}", ok_tokens.len(), ok_tokens.keys().collect::<Vec<_>>())));
  }
  for e in evs {
    if let EvK::Observe { len: Some(l), cap: Some(c), .. } = &e.k {
      if l > c {
        vs.push(viol(sc, "C03", "len_exceeds_capacity", &[], format!("len() = {l} > capacity() = {c}")));
      }
    }
  }

  c04_rules(sc.flavour.name(), sc.flavour == Flavour::Oneshot, evs, &mut vs);
  c09_rules(sc.flavour.name(), evs, &run.ledger, &mut vs);
  vs
}

/// C04: disconnect protocol rules that only need handle life-cycle and result events.
/// `oneshot` relaxes the premature-Disconnected rule once the single value was taken.
pub fn c04_rules(flavour: &str, oneshot: bool, evs: &[Ev], vs: &mut Vec<Violation>) {
    // Clones made from a handle after its own close(): the properties do not say whether such a
    // clone is a live handle or a closed one, so it is neither counted as alive nor held to the
    // closed-handle rules; what it must never do is bring a disconnected channel back (below).
    let born_tx = born_of_closed(evs, true);
    let born_rx = born_of_closed(evs, false);
    // when was each handle closed (Ok) / dropped: invocation stamps
    let tx_handles: BTreeSet<u16> = handles(evs, true).difference(&born_tx).copied().collect();
    let rx_handles: BTreeSet<u16> = handles(evs, false).difference(&born_rx).copied().collect();
    // first moment a (live, not self-closed) handle was told the other side is gone for good
    let mut first_disc: Option<(u64, u16)> = None;
    let mut first_closed: Option<(u64, u16)> = None;
    for e in evs {
      match &e.k {
        EvK::Recv { out, .. } if out.res == RRes::Disconnected && !born_rx.contains(&e.handle) && !handle_closed_before(evs, e.handle, false, e.inv) => {
          let oneshot_done = oneshot && evs.iter().any(|x| x.ret < e.ret && matches!(&x.k, EvK::Recv { out, .. } if out.res == RRes::Got));
          if !oneshot_done && first_disc.map(|(t, _)| e.ret < t).unwrap_or(true) {
            first_disc = Some((e.ret, e.handle));
          }
        }
        EvK::Send { out, .. } if out.res == SRes::Closed && !born_tx.contains(&e.handle) && !handle_closed_before(evs, e.handle, true, e.inv) => {
          if first_closed.map(|(t, _)| e.ret < t).unwrap_or(true) {
            first_closed = Some((e.ret, e.handle));
          }
        }
        _ => {}
      }
    }
    for e in evs {
      if let EvK::Send { out, form, .. } = &e.k {
        if out.sent > 0 || out.res == SRes::Ok {
          if let Some((t, h)) = first_disc {
            if e.inv > t {
              vs.push(viol_named(flavour, "C04", "send_accepted_after_disconnected_observed", &[("form", format!("{form:?}")), ("via_clone_of_closed_handle", born_tx.contains(&e.handle).to_string())], format!("receiver handle {h} was told Disconnected at {t} (every sender gone for good), yet sender handle {} had a send invoked at {} accepted ({:?}, sent {})", e.handle, e.inv, out.res, out.sent)));
            }
          }
          if let Some((t, h)) = first_closed {
            if e.inv > t {
              vs.push(viol_named(flavour, "C04", "send_accepted_after_closed_observed", &[("form", format!("{form:?}"))], format!("sender handle {h} was told Closed at {t} (every receiver gone for good), yet sender handle {} had a send invoked at {} accepted ({:?}, sent {})", e.handle, e.inv, out.res, out.sent)));
            }
          }
        }
      }
    }
    for e in evs {
      if (matches!(e.k, EvK::Recv { .. }) && born_rx.contains(&e.handle)) || (matches!(e.k, EvK::Send { .. }) && born_tx.contains(&e.handle)) {
        continue;
      }
      match &e.k {
        EvK::Recv { out, form, .. } => {
          let own_closed = handle_closed_before(evs, e.handle, false, e.inv);
          // oneshot: once the single value was taken the channel is finished, whoever still
          // holds a sender clone
          let oneshot_done = oneshot
            && evs.iter().any(|x| x.ret < e.ret && matches!(&x.k, EvK::Recv { out, .. } if out.res == RRes::Got));
          if out.res == RRes::Disconnected && !own_closed && !oneshot_done {
            // every sender handle must have had close/drop invoked before this return
            let alive: Vec<u16> = tx_handles.iter().copied().filter(|h| !handle_gone_before(evs, *h, true, e.ret)).collect();
            if !alive.is_empty() {
              vs.push(viol_named(flavour, "C04", "premature_disconnected", &[("form", format!("{form:?}"))], format!("receive returned Disconnected at {} while sender handles {alive:?} were alive", e.ret)));
            }
          }
          if own_closed && out.res == RRes::Got {
            vs.push(viol_named(flavour, "C04", "closed_receiver_accepted_op", &[("form", format!("{form:?}"))], format!("receiver handle {} returned a value after its own close()", e.handle)));
          }
        }
        EvK::Send { out, form, .. } => {
          let own_closed = handle_closed_before(evs, e.handle, true, e.inv);
          if out.res == SRes::Closed && !own_closed {
            let alive: Vec<u16> = rx_handles.iter().copied().filter(|h| !handle_gone_before(evs, *h, false, e.ret)).collect();
            if !alive.is_empty() {
              vs.push(viol_named(flavour, "C04", "premature_closed", &[("form", format!("{form:?}"))], format!("send returned Closed at {} while receiver handles {alive:?} were alive", e.ret)));
            }
          }
          if own_closed && (out.sent > 0 || out.res == SRes::Ok) {
            vs.push(viol_named(flavour, "C04", "closed_sender_accepted_op", &[("form", format!("{form:?}"))], format!("sender handle {} accepted {:?} (sent {}) after its own close()", e.handle, out.res, out.sent)));
          }
        }
        _ => {}
      }
    }
    // value after Disconnected on the same handle; close idempotence
    let mut disc: BTreeSet<u16> = BTreeSet::new();
    let mut closed_ok: BTreeSet<(bool, u16)> = BTreeSet::new();
    for e in evs {
      match &e.k {
        EvK::Recv { out, .. } => {
          if out.res == RRes::Disconnected {
            disc.insert(e.handle);
          } else if out.res == RRes::Got && disc.contains(&e.handle) {
            vs.push(viol_named(flavour, "C04", "value_after_disconnected", &[], format!("receiver handle {} obtained {:?} after it had observed Disconnected", e.handle, out.got)));
          }
        }
        EvK::TxClose { .. } if born_tx.contains(&e.handle) => {}
        EvK::RxClose { .. } if born_rx.contains(&e.handle) => {}
        EvK::TxClose { ok } => {
          if *ok && !closed_ok.insert((true, e.handle)) {
            vs.push(viol_named(flavour, "C04", "close_not_idempotent", &[("side", "tx".into())], format!("second close() of sender handle {} reported Ok", e.handle)));
          } else if !*ok && !closed_ok.contains(&(true, e.handle)) {
            vs.push(viol_named(flavour, "C04", "first_close_failed", &[("side", "tx".into())], format!("first close() of sender handle {} reported CloseError", e.handle)));
          }
        }
        EvK::RxClose { ok } => {
          if *ok && !closed_ok.insert((false, e.handle)) {
            vs.push(viol_named(flavour, "C04", "close_not_idempotent", &[("side", "rx".into())], format!("second close() of receiver handle {} reported Ok", e.handle)));
          } else if !*ok && !closed_ok.contains(&(false, e.handle)) {
            vs.push(viol_named(flavour, "C04", "first_close_failed", &[("side", "rx".into())], format!("first close() of receiver handle {} reported CloseError", e.handle)));
          }
        }
        _ => {}
      }
    }
}

/// C09: every token dropped exactly once after everything is gone.
pub fn c09_rules(flavour: &str, evs: &[Ev], ledger: &[super::tok::LedgerEntry], vs: &mut Vec<Violation>) {
  for (id, le) in ledger.iter().enumerate() {
    if le.created == 0 {
      continue;
    }
    if le.dropped > le.created {
      vs.push(viol_named(flavour, "C09", "double_drop", &[], format!("token {id} created {} time(s), dropped {}", le.created, le.dropped)));
    } else if le.dropped < le.created {
      vs.push(viol_named(flavour, "C09", "leak", &[("cancelled", any_cancel(evs).to_string())], format!("token {id} created {} time(s), dropped {} after all handles and futures were gone", le.created, le.dropped)));
    }
  }
}

pub fn any_cancel(evs: &[Ev]) -> bool {
  evs.iter().any(|e| match &e.k {
    EvK::Send { out, .. } => out.res == SRes::Cancelled,
    EvK::Recv { out, .. } => out.res == RRes::Cancelled,
    _ => false,
  })
}

/// Handles cloned from a handle whose own close() had already returned Ok (transitively).
pub fn born_of_closed(evs: &[Ev], tx: bool) -> BTreeSet<u16> {
  let mut born: BTreeSet<u16> = BTreeSet::new();
  for e in evs {
    let to = match (&e.k, tx) {
      (EvK::TxClone { to }, true) | (EvK::RxClone { to }, false) => *to,
      _ => continue,
    };
    if born.contains(&e.handle) || handle_closed_before(evs, e.handle, tx, e.inv) {
      born.insert(to);
    }
  }
  born
}

pub fn handles(evs: &[Ev], tx: bool) -> BTreeSet<u16> {
  let mut s = BTreeSet::new();
  for e in evs {
    match &e.k {
      EvK::Send { .. } | EvK::TxClose { .. } | EvK::TxDrop if tx => {
        s.insert(e.handle);
      }
      EvK::TxClone { to } if tx => {
        s.insert(e.handle);
        s.insert(*to);
      }
      EvK::Recv { .. } | EvK::RxClose { .. } | EvK::RxDrop if !tx => {
        s.insert(e.handle);
      }
      EvK::RxClone { to } if !tx => {
        s.insert(e.handle);
        s.insert(*to);
      }
      _ => {}
    }
  }
  s
}

/// the handle's own close() returned Ok before stamp `t`
pub fn handle_closed_before(evs: &[Ev], h: u16, tx: bool, t: u64) -> bool {
  evs.iter().any(|e| e.handle == h && e.ret <= t && matches!((&e.k, tx), (EvK::TxClose { ok: true }, true) | (EvK::RxClose { ok: true }, false)))
}

/// close/drop of the handle was *invoked* before stamp `t`
pub fn handle_gone_before(evs: &[Ev], h: u16, tx: bool, t: u64) -> bool {
  evs.iter().any(|e| e.handle == h && e.inv < t && matches!((&e.k, tx), (EvK::TxClose { .. }, true) | (EvK::TxDrop, true) | (EvK::RxClose { .. }, false) | (EvK::RxDrop, false)))
}

/// Coverage measure: set of (flavour, form, async?, outcome) tuples reached.
pub fn states(sc: &ChanSc, run: &ChanRun) -> Vec<u64> {
  use crate::core::batch::hash_str;
  let mut out = vec![];
  for e in &run.events {
    match &e.k {
      EvK::Send { form, out: o, is_async, .. } => out.push(hash_str(&format!("{:?}|S|{:?}|{}|{:?}|{}", sc.flavour, form, is_async, o.res, o.sent.min(3)))),
      EvK::Recv { form, out: o, is_async, .. } => out.push(hash_str(&format!("{:?}|R|{:?}|{}|{:?}|{}", sc.flavour, form, is_async, o.res, o.got.len().min(3)))),
      _ => {}
    }
  }
  out.sort();
  out.dedup();
  out
}

pub fn _unused(_: Flavour, _: RecvForm) {}
