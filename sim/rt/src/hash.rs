//! Deterministic stand-ins for the hash containers the repository builds with std's
//! `RandomState` (whose keys are per OS thread and advance with every map created, i.e. depend on
//! what ran earlier on the thread). Same method surface through `Deref`; fixed hasher keys, so
//! iteration order is a function of the run alone.

use std::hash::{BuildHasher, Hash};
use std::ops::{Deref, DerefMut};

#[derive(Clone, Copy, Debug, Default)]
pub struct DetState;

impl BuildHasher for DetState {
  type Hasher = std::collections::hash_map::DefaultHasher;
  fn build_hasher(&self) -> Self::Hasher {
    // SipHash-1-3 with zero keys
    std::collections::hash_map::DefaultHasher::new()
  }
}

#[derive(Debug, Clone)]
pub struct HashSet<K>(std::collections::HashSet<K, DetState>);

impl<K> HashSet<K> {
  pub fn new() -> Self {
    HashSet(std::collections::HashSet::with_hasher(DetState))
  }
}

impl<K> Default for HashSet<K> {
  fn default() -> Self {
    Self::new()
  }
}

impl<K> Deref for HashSet<K> {
  type Target = std::collections::HashSet<K, DetState>;
  fn deref(&self) -> &Self::Target {
    &self.0
  }
}

impl<K> DerefMut for HashSet<K> {
  fn deref_mut(&mut self) -> &mut Self::Target {
    &mut self.0
  }
}

#[derive(Debug, Clone)]
pub struct HashMap<K, V>(std::collections::HashMap<K, V, DetState>);

impl<K, V> HashMap<K, V> {
  pub fn new() -> Self {
    HashMap(std::collections::HashMap::with_hasher(DetState))
  }
}

impl<K, V> Default for HashMap<K, V> {
  fn default() -> Self {
    Self::new()
  }
}

impl<K, V> Deref for HashMap<K, V> {
  type Target = std::collections::HashMap<K, V, DetState>;
  fn deref(&self) -> &Self::Target {
    &self.0
  }
}

impl<K, V> DerefMut for HashMap<K, V> {
  fn deref_mut(&mut self) -> &mut Self::Target {
    &mut self.0
  }
}

/// `papaya::HashMap` with the deterministic hasher.
pub struct PapayaHashMap<K, V>(papaya::HashMap<K, V, DetState>);

impl<K: Hash + Eq, V> PapayaHashMap<K, V> {
  pub fn new() -> Self {
    PapayaHashMap(papaya::HashMap::with_hasher(DetState))
  }
}

impl<K, V> Deref for PapayaHashMap<K, V> {
  type Target = papaya::HashMap<K, V, DetState>;
  fn deref(&self) -> &Self::Target {
    &self.0
  }
}
