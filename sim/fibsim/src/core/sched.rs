//! The harness' own seeded scheduler (implements shuttle's public `Scheduler` trait). It decides
//! every interleaving and serves every random draw made inside a run, records the decision trace
//! and counts what it did.

use super::rng::{fnv1a, Rng, FNV_OFFSET};
use shuttle::scheduler::{Schedule, Scheduler, Task, TaskId};
use std::cell::RefCell;
use std::rc::Rc;

#[derive(Clone, Copy, Debug, PartialEq)]
pub enum Mode {
  /// any runnable task, uniformly
  Uniform,
  /// keep the current task with probability p/256 (long uninterrupted stretches)
  Sticky(u32),
  /// PCT-style: random distinct priorities, `d` priority-change points within `est_steps`
  Pct { depth: u32, est_steps: u32 },
  /// tasks in `favoured` (bitmask over task ids) have absolute priority once `armed`
  /// (armed by the scenario through `SchedShared::arm_starve`); used for writer starvation.
  Starve { favoured: u64 },
}

#[derive(Debug, Default, Clone)]
pub struct SchedStats {
  pub steps: u64,
  pub switches: u64,
  pub spurious_wakes: u64,
  pub draws: u64,
  pub trace_hash: u64,
  pub max_tasks: u32,
  pub trace: Vec<u16>,
  pub starve_armed: bool,
  /// tasks that were ready (runnable and not merely parked) at the latest decision
  pub ready_now: u32,
}

pub type SchedShared = Rc<RefCell<SchedStats>>;

/// Prepares the next run of a multi-run session: returns the knobs of the next run (after
/// installing its scenario in the run thread's TLS) or None when the session is over.
pub struct NextRun {
  pub seed: u64,
  pub mode: Mode,
  pub spurious_rate: u32,
  pub record_trace: bool,
  pub guide: Option<Vec<u16>>,
}

pub type NextFn = Box<dyn FnMut() -> Option<NextRun>>;

pub struct SimScheduler {
  bt_debug: bool,
  bt_seed: u64,
  /// multi-run session driver (None = exactly one run, configured at construction)
  next: Option<NextFn>,
  rng: Rng,
  data: Rng,
  mode: Mode,
  /// probability (1/65536) per decision of running a task that is blocked in `park`
  spurious_rate: u32,
  started: bool,
  record_trace: bool,
  shared: SchedShared,
  prio: Vec<u64>,
  change_points: Vec<u64>,
  low_water: u64,
  /// replay / guided mode: follow this trace while it lasts
  guide: Option<Vec<u16>>,
}

impl SimScheduler {
  pub fn new(seed: u64, mode: Mode, spurious_rate: u32, record_trace: bool, shared: SchedShared) -> Self {
    let mut root = Rng::new(seed);
    let mut rng = root.fork();
    let data = root.fork();
    let mut change_points = vec![];
    if let Mode::Pct { depth, est_steps } = mode {
      for _ in 0..depth {
        change_points.push(1 + rng.below(est_steps.max(2) as u64));
      }
    }
    shared.borrow_mut().trace_hash = FNV_OFFSET;
    SimScheduler {
      bt_debug: std::env::var("VERIF_STEP_BT").ok().map(|v| v == "all" || v.parse::<u64>().ok() == Some(seed)).unwrap_or(false),
      bt_seed: seed,
      next: None,
      rng,
      data,
      mode,
      spurious_rate,
      started: false,
      record_trace,
      shared,
      prio: vec![],
      change_points,
      low_water: 1 << 20,
      guide: None,
    }
  }

  /// A scheduler for a session of many runs inside one `Runner::run` (so shuttle's continuation
  /// pool, i.e. the coroutine stacks, is reused across runs). `next` is called before every run.
  pub fn session(next: NextFn, shared: SchedShared) -> Self {
    let mut s = SimScheduler::new(0, Mode::Uniform, 0, false, shared);
    s.next = Some(next);
    s
  }

  fn reconfigure(&mut self, n: NextRun) {
    let mut root = Rng::new(n.seed);
    self.rng = root.fork();
    self.data = root.fork();
    self.mode = n.mode;
    self.spurious_rate = n.spurious_rate;
    self.record_trace = n.record_trace;
    self.prio.clear();
    self.low_water = 1 << 20;
    self.change_points.clear();
    if let Mode::Pct { depth, est_steps } = n.mode {
      for _ in 0..depth {
        let cp = 1 + self.rng.below(est_steps.max(2) as u64);
        self.change_points.push(cp);
      }
    }
    self.guide = n.guide;
    self.bt_debug = std::env::var("VERIF_STEP_BT").ok().map(|v| v == "all" || v.parse::<u64>().ok() == Some(n.seed)).unwrap_or(false);
    self.bt_seed = n.seed;
    let mut st = self.shared.borrow_mut();
    *st = SchedStats::default();
    st.trace_hash = FNV_OFFSET;
  }

  pub fn with_guide(mut self, g: Vec<u16>) -> Self {
    self.guide = Some(g);
    self
  }

  fn prio_of(&mut self, id: usize) -> u64 {
    while self.prio.len() <= id {
      // distinct random priorities above the low-water mark
      let p = (1 << 21) + (self.rng.next_u64() >> 24);
      self.prio.push(p);
    }
    self.prio[id]
  }
}

impl Scheduler for SimScheduler {
  fn new_execution(&mut self) -> Option<Schedule> {
    if let Some(next) = self.next.as_mut() {
      return match next() {
        Some(n) => {
          self.reconfigure(n);
          Some(Schedule::new(0))
        }
        None => None,
      };
    }
    if self.started {
      return None;
    }
    self.started = true;
    Some(Schedule::new(0))
  }

  fn next_task(&mut self, runnable: &[&Task], current: Option<TaskId>, is_yielding: bool) -> Option<TaskId> {
    let step;
    if self.bt_debug {
      let bt = format!("{}", std::backtrace::Backtrace::force_capture());
      let frames: Vec<&str> = bt.lines().filter(|l| l.contains(" at ") && (l.contains("/repo/") || l.contains("fibsim/src") || l.contains("rt/src") || l.contains("shims/"))).take(6).collect();
      println!("STEPBT seed={} current={:?} runnable={} {}", self.bt_seed, current, runnable.len(), frames.join(" <- ").replace("             at ", ""));
    }
    {
      let mut st = self.shared.borrow_mut();
      st.steps += 1;
      step = st.steps;
      if runnable.len() as u32 > st.max_tasks {
        st.max_tasks = runnable.len() as u32;
      }
    }

    // guided replay
    if let Some(g) = &self.guide {
      if let Some(&want) = g.get(step as usize - 1) {
        if let Some(t) = runnable.iter().find(|t| usize::from(t.id()) as u16 == want) {
          let id = t.id();
          self.note(id, current, t.can_spuriously_wakeup());
          return Some(id);
        }
      }
    }

    let mut ready: Vec<TaskId> = Vec::with_capacity(runnable.len());
    let mut parked: Vec<TaskId> = Vec::new();
    for t in runnable {
      if t.can_spuriously_wakeup() {
        parked.push(t.id());
      } else {
        ready.push(t.id());
      }
    }

    self.shared.borrow_mut().ready_now = ready.len() as u32;

    // F1: spurious wake-up of a parked task, at a seeded rate.
    if !parked.is_empty() && (ready.is_empty() || (self.spurious_rate > 0 && (self.rng.next_u64() & 0xffff) < self.spurious_rate as u64)) {
      let id = parked[self.rng.below(parked.len() as u64) as usize];
      self.note(id, current, true);
      return Some(id);
    }

    let cur_ready = current.filter(|c| ready.contains(c));
    // A yielding task has nothing to do until somebody else runs: prefer anybody else.
    let pool: Vec<TaskId> = if is_yielding && ready.len() > 1 {
      ready.iter().copied().filter(|t| Some(*t) != current).collect()
    } else {
      ready.clone()
    };

    let chosen = match self.mode {
      Mode::Uniform => pool[self.rng.below(pool.len() as u64) as usize],
      Mode::Sticky(p) => {
        if let (Some(c), false) = (cur_ready, is_yielding) {
          if (self.rng.next_u64() & 0xff) < p as u64 {
            c
          } else {
            pool[self.rng.below(pool.len() as u64) as usize]
          }
        } else {
          pool[self.rng.below(pool.len() as u64) as usize]
        }
      }
      Mode::Pct { .. } => {
        if self.change_points.contains(&step) || is_yielding {
          if let Some(c) = current {
            let id = usize::from(c);
            self.prio_of(id);
            self.low_water -= 1;
            self.prio[id] = self.low_water;
          }
        }
        let mut best = pool[0];
        let mut bestp = 0;
        for t in &pool {
          let p = self.prio_of(usize::from(*t));
          if p >= bestp {
            bestp = p;
            best = *t;
          }
        }
        best
      }
      Mode::Starve { favoured } => {
        // armed by the scenario, or by the library probe "the writer has queued"
        let armed = self.shared.borrow().starve_armed || fibre_verif_rt::ctx::probe_count("rwlock_writer_queued_and_parking") > 0;
        let fav: Vec<TaskId> = pool.iter().copied().filter(|t| (favoured >> usize::from(*t)) & 1 == 1).collect();
        if armed && !fav.is_empty() {
          fav[self.rng.below(fav.len() as u64) as usize]
        } else {
          pool[self.rng.below(pool.len() as u64) as usize]
        }
      }
    };
    self.note(chosen, current, false);
    Some(chosen)
  }

  fn next_u64(&mut self) -> u64 {
    self.shared.borrow_mut().draws += 1;
    self.data.next_u64()
  }
}

impl SimScheduler {
  fn note(&mut self, chosen: TaskId, current: Option<TaskId>, spurious: bool) {
    let mut st = self.shared.borrow_mut();
    let id = usize::from(chosen) as u64;
    st.trace_hash = fnv1a(st.trace_hash, id);
    if Some(chosen) != current {
      st.switches += 1;
    }
    if spurious {
      st.spurious_wakes += 1;
    }
    if self.record_trace {
      st.trace.push(id as u16);
    }
  }
}
