//! CH-CONC: concurrent closed scenarios over the point-to-point channels. 2–6 simulated threads:
//! producers with token quotas (mixed operation forms), consumers that receive until they observe
//! `Disconnected`, handle life-cycle chaos (clone / convert / close / drop), cancellation plans for
//! async operations, timed receives on the virtual clock.

use super::adapt::{make, Flavour, RRes, RecvOut, Rx, SRes, SendOut, Tx};
use super::drive::Plan;
use super::tok::{ledger_reset, ledger_snapshot, LedgerEntry, Tok};
use crate::core::rng::Rng;
use crate::core::run::{execute, RunCfg, RunOut};
use crate::core::sched::Mode;
use fibre_verif_rt::ctx::{self, next_seq, FaultKind, FaultRates};
use serde::{Deserialize, Serialize};
use std::cell::RefCell;
use std::sync::atomic::{AtomicU32, Ordering};
use std::sync::Arc;
use std::time::Duration;

#[derive(Clone, Copy, Debug, Serialize, Deserialize, PartialEq, Eq, Hash, PartialOrd, Ord)]
pub enum SendForm {
  Single,
  Try,
  Batch,
  TryBatch,
  BatchMut,
  TryBatchMut,
}

#[derive(Clone, Copy, Debug, Serialize, Deserialize, PartialEq, Eq, Hash, PartialOrd, Ord)]
pub enum RecvForm {
  Single,
  Try,
  Timeout,
  Batch,
  TryBatch,
  BatchMut,
  TryBatchMut,
  Stream,
}

#[derive(Clone, Debug, Serialize, Deserialize, PartialEq)]
pub enum POp {
  Send { form: SendForm, n: u8, plan: Plan },
  /// to_async / to_sync
  Convert,
  /// clone the handle, continue with the clone, drop the original
  CloneSwap,
  /// clone the handle and drop the clone straight away
  CloneDrop,
  /// close() the handle in use; later operations on it must be rejected
  CloseOwn,
  Observe,
  Yield,
}

#[derive(Clone, Debug, Serialize, Deserialize, PartialEq)]
pub enum COp {
  Recv { form: RecvForm, max: u8, timeout_ns: u64, plan: Plan },
  Convert,
  CloneSwap,
  CloneDrop,
  Observe,
  Yield,
  /// the consumer goes idle (keeps its handle, receives nothing) for up to `rounds` scheduling
  /// rounds or until every producer has finished: senders that can proceed must do so without
  /// any further help from the receiving side
  Pause {
    rounds: u16,
    /// go idle right after whatever was received, without first probing for Empty
    #[serde(default)]
    eager: bool,
  },
}

#[derive(Clone, Copy, Debug, Serialize, Deserialize, PartialEq)]
pub enum AtEnd {
  Drop,
  Close,
  /// close(), then keep using the closed handle for a few more receives (must be rejected)
  CloseThenUse,
  /// close(), convert the closed handle (sync <-> async), then keep using it (must be rejected)
  CloseThenConvertUse,
  /// close(), clone the closed handle, drop the original, then poll the clone (whatever a clone
  /// of a closed handle is, it must not bring a disconnected channel back)
  CloseThenCloneUse,
}

#[derive(Clone, Debug, Serialize, Deserialize, PartialEq)]
pub struct Producer {
  pub ops: Vec<POp>,
}

#[derive(Clone, Debug, Serialize, Deserialize, PartialEq)]
pub struct Consumer {
  /// executed cyclically until Disconnected / quota
  pub ops: Vec<COp>,
  /// stop after this many tokens (None = until Disconnected)
  pub quota: Option<u16>,
  pub at_end: AtEnd,
}

#[derive(Clone, Copy, Debug, Serialize, Deserialize, PartialEq)]
pub enum ModeSer {
  Uniform,
  Sticky(u32),
  Pct(u32, u32),
}

#[derive(Clone, Debug, Serialize, Deserialize, PartialEq)]
pub struct Knobs {
  pub seed: u64,
  pub mode: ModeSer,
  pub spurious_rate: u32,
  pub cas_weak: u32,
  pub park_return: u32,
  pub max_steps: u32,
}

impl Knobs {
  pub fn gen(rng: &mut Rng, faults: bool, est_steps: u32) -> Knobs {
    let mode = match rng.below(10) {
      0..=3 => ModeSer::Uniform,
      4..=6 => ModeSer::Sticky(*rng.pick(&[128u32, 192, 230])),
      _ => ModeSer::Pct(rng.range(1, 4) as u32, est_steps),
    };
    Knobs {
      seed: rng.next_u64(),
      mode,
      spurious_rate: if faults && rng.chance(1, 2) { *rng.pick(&[300u32, 1500, 5000]) } else { 0 },
      cas_weak: if faults && rng.chance(1, 2) { *rng.pick(&[2000u32, 8000, 20000]) } else { 0 },
      park_return: if faults && rng.chance(1, 2) { *rng.pick(&[8000u32, 30000]) } else { 0 },
      max_steps: 60_000,
    }
  }
  pub fn run_cfg(&self, record_trace: bool) -> RunCfg {
    let mut c = RunCfg::new(self.seed);
    c.mode = match self.mode {
      ModeSer::Uniform => Mode::Uniform,
      ModeSer::Sticky(p) => Mode::Sticky(p),
      ModeSer::Pct(d, e) => Mode::Pct { depth: d, est_steps: e },
    };
    c.spurious_rate = self.spurious_rate;
    // (half of all runs, decided by the run's seed: a knob, not a fault)
    c.rates = FaultRates { cas_weak: self.cas_weak, spurious_park_return: self.park_return, post_write_yield: self.seed & 1 == 0,
      // (a quarter of the non-PCT runs; under PCT a spinning top-priority thread must yield)
      lazy_spin: (self.seed >> 1) & 3 == 0 && !matches!(self.mode, ModeSer::Pct(..)),
      // (fault-injecting configurations only: a quarter of them, at one of two rates)
      post_write_stall: if self.spurious_rate == 0 && self.cas_weak == 0 && self.park_return == 0 {
        0
      } else {
        match (self.seed >> 4) & 7 {
          0 => 2000,
          1 => 6000,
          _ => 0,
        }
      } };
    if let Some(v) = std::env::var("VERIF_FORCE_STALL").ok().and_then(|v| v.parse::<u32>().ok()) {
      // (experiments only)
      c.rates.post_write_stall = v;
    }
    c.max_steps = self.max_steps as usize;
    c.record_trace = record_trace;
    c
  }
}

#[derive(Clone, Debug, Serialize, Deserialize, PartialEq)]
pub struct ChanSc {
  pub flavour: Flavour,
  pub cap: usize,
  pub async_ctor: bool,
  pub producers: Vec<Producer>,
  pub consumers: Vec<Consumer>,
  /// main keeps one sender alive until everything sent was received (liveness variant)
  pub hold_open: bool,
  pub knobs: Knobs,
}

impl ChanSc {
  pub fn any_async(&self) -> bool {
    self.flavour == Flavour::Oneshot
      || self.async_ctor
      || self.producers.iter().any(|p| p.ops.iter().any(|o| matches!(o, POp::Convert)))
      || self.consumers.iter().any(|c| c.ops.iter().any(|o| matches!(o, COp::Convert)))
  }
  pub fn total_tokens(&self) -> usize {
    self.producers.iter().map(|p| p.ops.iter().map(|o| if let POp::Send { n, .. } = o { *n as usize } else { 0 }).sum::<usize>()).sum()
  }
}

// ------------------------------------------------------------------------------------------
// History

#[derive(Clone, Debug)]
pub enum EvK {
  Send { form: SendForm, input: Vec<u32>, out: SendOut, is_async: bool },
  Recv { form: RecvForm, out: RecvOut, is_async: bool, max: usize },
  TxClose { ok: bool },
  RxClose { ok: bool },
  TxDrop,
  RxDrop,
  TxClone { to: u16 },
  RxClone { to: u16 },
  Observe { tx_side: bool, len: Option<usize>, cap: Option<usize>, full: Option<bool>, empty: Option<bool>, closed: bool },
  ConsumerBail,
  HoldOpenTimeout,
  /// an idle phase of a consumer: (tokens sent Ok, tokens received, len()) half-way and at the end
  Pause { rounds: u16, used: u16, mid: Option<(u32, u32, usize)>, end: (u32, u32, usize), cap: usize, producers_done: bool, saw_empty: bool, quiescent: bool },
}

#[derive(Clone, Debug)]
pub struct Ev {
  pub actor: u8,
  pub handle: u16,
  pub k: EvK,
  pub inv: u64,
  pub ret: u64,
}

thread_local! {
  static EVS: RefCell<Vec<Ev>> = const { RefCell::new(Vec::new()) };
}

pub(crate) fn record(actor: u8, handle: u16, inv: u64, k: EvK) {
  let ret = next_seq();
  EVS.with(|e| e.borrow_mut().push(Ev { actor, handle, k, inv, ret }));
}

pub(crate) fn take_events() -> Vec<Ev> {
  EVS.with(|e| std::mem::take(&mut *e.borrow_mut()))
}

// ------------------------------------------------------------------------------------------
// Execution

pub(crate) struct Shared {
  pub(crate) next_handle: AtomicU32,
  pub(crate) sent_ok: AtomicU32,
  pub(crate) received: AtomicU32,
  /// producer threads that ran to their end
  pub(crate) producers_done: AtomicU32,
}

impl Shared {
  pub(crate) fn new() -> Shared {
    Shared { next_handle: AtomicU32::new(0), sent_ok: AtomicU32::new(0), received: AtomicU32::new(0), producers_done: AtomicU32::new(0) }
  }
  pub(crate) fn handle_id(&self) -> u16 {
    self.next_handle.fetch_add(1, Ordering::SeqCst) as u16
  }
}

/// scheduling rounds the hold-open main thread grants before it gives up waiting
pub const HOLD_OPEN_YIELDS: u32 = 3000;

fn token_id(producer: usize, seq: usize) -> u32 {
  (producer as u32) * 256 + seq as u32
}

pub fn token_producer(id: u32) -> u32 {
  id / 256
}

pub(crate) fn run_producer(idx: usize, p: &Producer, mut tx: Box<dyn Tx>, mut hid: u16, sh: &Shared) {
  let actor = idx as u8;
  let mut seq = 0usize;
  let mut stop = false;
  for op in &p.ops {
    if stop {
      break;
    }
    match op {
      POp::Send { form, n, plan } => {
        let n = (*n).max(1) as usize;
        let is_async = tx.is_async();
        let plan = if is_async { *plan } else { Plan::NONE };
        let mut toks: Vec<Tok> = (0..n).map(|i| Tok::new(token_id(idx, seq + i))).collect();
        seq += n;
        let input: Vec<u32> = toks.iter().map(|t| t.id()).collect();
        let inv = next_seq();
        let out = match form {
          SendForm::Single => {
            // n tokens through n single sends would be n events; single forms always carry 1
            let t = toks.pop().unwrap();
            debug_assert!(toks.is_empty());
            tx.send(t, plan)
          }
          SendForm::Try => {
            let t = toks.pop().unwrap();
            ctx_no_park(|| tx.try_send(t))
          }
          SendForm::Batch => tx.send_batch(std::mem::take(&mut toks), plan),
          SendForm::TryBatch => ctx_no_park(|| tx.try_send_batch(std::mem::take(&mut toks))),
          SendForm::BatchMut => tx.send_batch_mut(std::mem::take(&mut toks), plan),
          SendForm::TryBatchMut => ctx_no_park(|| tx.try_send_batch_mut(std::mem::take(&mut toks))),
        };
        sh.sent_ok.fetch_add(out.sent as u32, Ordering::SeqCst);
        let res = out.res;
        record(actor, hid, inv, EvK::Send { form: *form, input, out, is_async });
        if res == SRes::Closed || res == SRes::Sent {
          // receivers are gone (or our handle is closed): nothing more can be delivered
          stop = true;
        }
      }
      POp::Convert => {
        tx = tx.convert();
      }
      POp::CloneSwap => {
        if let Some(c) = tx.try_clone() {
          let nid = sh.handle_id();
          let inv = next_seq();
          record(actor, hid, inv, EvK::TxClone { to: nid });
          let inv = next_seq();
          drop(tx);
          record(actor, hid, inv, EvK::TxDrop);
          tx = c;
          hid = nid;
        }
      }
      POp::CloneDrop => {
        if let Some(c) = tx.try_clone() {
          let nid = sh.handle_id();
          let inv = next_seq();
          record(actor, hid, inv, EvK::TxClone { to: nid });
          let inv = next_seq();
          drop(c);
          record(actor, nid, inv, EvK::TxDrop);
        }
      }
      POp::CloseOwn => {
        let inv = next_seq();
        let ok = tx.close();
        record(actor, hid, inv, EvK::TxClose { ok });
      }
      POp::Observe => {
        let inv = next_seq();
        let k = EvK::Observe { tx_side: true, len: tx.len(), cap: tx.capacity(), full: tx.is_full(), empty: tx.is_empty(), closed: tx.is_closed() };
        record(actor, hid, inv, k);
      }
      POp::Yield => shuttle::thread::yield_now(),
    }
  }
  let inv = next_seq();
  drop(tx);
  record(actor, hid, inv, EvK::TxDrop);
  sh.producers_done.fetch_add(1, Ordering::SeqCst);
}

fn ctx_no_park<R>(f: impl FnOnce() -> R) -> R {
  fibre_verif_rt::chan::thread::no_park_section(f)
}

pub(crate) fn do_recv(rx: &mut Box<dyn Rx>, form: RecvForm, max: usize, timeout_ns: u64, plan: Plan) -> (RecvForm, RecvOut) {
  let is_async = rx.is_async();
  // forms that only exist on one side fall back to the plain blocking receive
  let form = match form {
    RecvForm::Timeout if is_async => RecvForm::Single,
    RecvForm::Stream if !is_async => RecvForm::Single,
    f => f,
  };
  let plan = if is_async { plan } else { Plan::NONE };
  let max = max.max(1);
  let out = match form {
    RecvForm::Single => rx.recv(plan),
    RecvForm::Try => ctx_no_park(|| rx.try_recv()),
    RecvForm::Timeout => rx.recv_timeout(Duration::from_nanos(timeout_ns.max(1))),
    RecvForm::Batch => rx.recv_batch(max, plan),
    RecvForm::TryBatch => ctx_no_park(|| rx.try_recv_batch(max)),
    RecvForm::BatchMut => rx.recv_batch_mut(max, plan),
    RecvForm::TryBatchMut => ctx_no_park(|| rx.try_recv_batch_mut(max)),
    RecvForm::Stream => rx.stream_next(plan),
  };
  (form, out)
}

pub(crate) fn run_consumer(idx: usize, nprod: usize, c: &Consumer, mut rx: Box<dyn Rx>, mut hid: u16, sh: &Shared, total_tokens: usize) {
  let actor = (nprod + idx) as u8;
  let mut got_total = 0usize;
  let budget = c.ops.len().max(1) * (total_tokens + 6);
  let mut rounds = 0usize;
  let mut done = false;
  'outer: loop {
    for op in &c.ops {
      rounds += 1;
      if rounds > budget {
        let inv = next_seq();
        record(actor, hid, inv, EvK::ConsumerBail);
        break 'outer;
      }
      match op {
        COp::Recv { form, max, timeout_ns, plan } => {
          let is_async = rx.is_async();
          let mut max = *max as usize;
          if let Some(q) = c.quota {
            // never take more than the quota allows
            max = max.min((q as usize).saturating_sub(got_total)).max(1);
          }
          let inv = next_seq();
          let (form, out) = do_recv(&mut rx, *form, max, *timeout_ns, *plan);
          let n = out.got.iter().filter(|x| **x != u32::MAX).count();
          got_total += n;
          sh.received.fetch_add(n as u32, Ordering::SeqCst);
          let res = out.res;
          record(actor, hid, inv, EvK::Recv { form, out, is_async, max });
          match res {
            RRes::Disconnected => {
              done = true;
              break 'outer;
            }
            RRes::Empty | RRes::Timeout | RRes::Cancelled => shuttle::thread::yield_now(),
            _ => {}
          }
          if let Some(q) = c.quota {
            if got_total >= q as usize {
              break 'outer;
            }
          }
        }
        COp::Convert => {
          rx = rx.convert();
        }
        COp::CloneSwap => {
          if let Some(n) = rx.try_clone() {
            let nid = sh.handle_id();
            let inv = next_seq();
            record(actor, hid, inv, EvK::RxClone { to: nid });
            let inv = next_seq();
            drop(rx);
            record(actor, hid, inv, EvK::RxDrop);
            rx = n;
            hid = nid;
          }
        }
        COp::CloneDrop => {
          if let Some(n) = rx.try_clone() {
            let nid = sh.handle_id();
            let inv = next_seq();
            record(actor, hid, inv, EvK::RxClone { to: nid });
            let inv = next_seq();
            drop(n);
            record(actor, nid, inv, EvK::RxDrop);
          }
        }
        COp::Observe => {
          let inv = next_seq();
          let k = EvK::Observe { tx_side: false, len: rx.len(), cap: rx.capacity(), full: rx.is_full(), empty: rx.is_empty(), closed: rx.is_closed() };
          record(actor, hid, inv, k);
        }
        COp::Yield => shuttle::thread::yield_now(),
        COp::Pause { rounds, eager } => {
          // Only right after this consumer has itself seen the channel empty through try_recv:
          // whatever it drained is then visible to the producers by every flavour's own rules
          // (lazily published credits are flushed when the receiver finds nothing), so a
          // producer with work left needs no further help from the receiving side.
          let cap = rx.capacity().unwrap_or(0);
          if cap == 0 || rx.len().is_none() {
            continue;
          }
          let is_async = rx.is_async();
          let res = if *eager {
            if got_total == 0 {
              continue;
            }
            RRes::Empty
          } else {
            let inv = next_seq();
            let (form, out) = do_recv(&mut rx, RecvForm::Try, 1, 0, Plan::NONE);
            let n = out.got.iter().filter(|x| **x != u32::MAX).count();
            got_total += n;
            sh.received.fetch_add(n as u32, Ordering::SeqCst);
            let res = out.res;
            record(actor, hid, inv, EvK::Recv { form, out, is_async, max: 1 });
            res
          };
          match res {
            RRes::Disconnected => {
              done = true;
              break 'outer;
            }
            RRes::Empty => {
              let inv = next_seq();
              let snap = |rx: &Box<dyn Rx>| (sh.sent_ok.load(Ordering::SeqCst), sh.received.load(Ordering::SeqCst), rx.len().unwrap_or(usize::MAX));
              let mut mid = None;
              let mut used = 0u16;
              // consecutive rounds in which this thread was the only one that could run at all
              // (everybody else blocked or parked): a certificate, not a matter of patience
              let mut alone = 0u16;
              for i in 0..*rounds {
                if sh.producers_done.load(Ordering::SeqCst) as usize >= nprod {
                  break;
                }
                if i == *rounds / 2 {
                  mid = Some(snap(&rx));
                }
                shuttle::thread::yield_now();
                used += 1;
                let ready = crate::core::run::with_sched(|s| s.ready_now).unwrap_or(u32::MAX);
                alone = if ready <= 1 { alone + 1 } else { 0 };
                if alone >= 40 {
                  break;
                }
              }
              let end = snap(&rx);
              let producers_done = sh.producers_done.load(Ordering::SeqCst) as usize >= nprod;
              record(actor, hid, inv, EvK::Pause { rounds: *rounds, used, mid, end, cap, producers_done, saw_empty: !*eager, quiescent: alone >= 40 });
            }
            _ => {}
          }
          if let Some(q) = c.quota {
            if got_total >= q as usize {
              break 'outer;
            }
          }
        }
      }
    }
  }
  let _ = done;
  match c.at_end {
    AtEnd::Drop => {}
    AtEnd::Close | AtEnd::CloseThenUse | AtEnd::CloseThenConvertUse | AtEnd::CloseThenCloneUse => {
      ctx::fault_fired(FaultKind::HandleDropMidRun);
      let inv = next_seq();
      let ok = rx.close();
      record(actor, hid, inv, EvK::RxClose { ok });
      let mut forms: &[RecvForm] = &[RecvForm::Try, RecvForm::Single, RecvForm::TryBatch, RecvForm::Timeout];
      if c.at_end == AtEnd::CloseThenConvertUse {
        rx = rx.convert();
      }
      if c.at_end == AtEnd::CloseThenCloneUse {
        if let Some(cl) = rx.try_clone() {
          let nid = sh.handle_id();
          let inv = next_seq();
          record(actor, hid, inv, EvK::RxClone { to: nid });
          let inv = next_seq();
          drop(rx);
          record(actor, hid, inv, EvK::RxDrop);
          rx = cl;
          hid = nid;
          // the clone may be a live receiver: only forms that cannot block
          forms = &[RecvForm::Try, RecvForm::TryBatch, RecvForm::Try];
        }
      }
      if c.at_end != AtEnd::Close {
        // a closed handle must reject every further operation
        for form in forms.iter().copied() {
          let is_async = rx.is_async();
          let inv = next_seq();
          let (form, out) = do_recv(&mut rx, form, 2, 1000, Plan::NONE);
          record(actor, hid, inv, EvK::Recv { form, out, is_async, max: 2 });
        }
        let inv = next_seq();
        let ok = rx.close();
        record(actor, hid, inv, EvK::RxClose { ok });
      }
    }
  }
  let inv = next_seq();
  drop(rx);
  record(actor, hid, inv, EvK::RxDrop);
}

pub struct ChanRun {
  pub out: RunOut,
  pub events: Vec<Ev>,
  pub ledger: Vec<LedgerEntry>,
}

thread_local! {
  static CUR: RefCell<Option<Arc<ChanSc>>> = const { RefCell::new(None) };
}

/// Install `sc` as the current run of this OS thread (reset ledger and history).
pub fn begin_scenario(sc: &ChanSc, record_trace: bool) -> RunCfg {
  ledger_reset();
  let _ = take_events();
  CUR.with(|c| *c.borrow_mut() = Some(Arc::new(sc.clone())));
  sc.knobs.run_cfg(record_trace)
}

pub fn finish_scenario(out: RunOut) -> ChanRun {
  CUR.with(|c| *c.borrow_mut() = None);
  ChanRun { out, events: take_events(), ledger: ledger_snapshot() }
}

pub fn execute_scenario(sc: &ChanSc, record_trace: bool) -> ChanRun {
  let cfg = begin_scenario(sc, record_trace);
  let out = execute(&cfg, scenario_main);
  finish_scenario(out)
}

/// The simulated main thread of a CH-CONC run.
pub fn scenario_main() {
  let scn: Arc<ChanSc> = CUR.with(|c| c.borrow().clone()).expect("no current scenario");
  {
    let sc = scn.clone();
    let sh = Arc::new(Shared { next_handle: AtomicU32::new(0), sent_ok: AtomicU32::new(0), received: AtomicU32::new(0), producers_done: AtomicU32::new(0) });
    let (tx0, rx0) = make(sc.flavour, sc.cap, sc.async_ctor);
    let tx0_id = sh.handle_id();
    let rx0_id = sh.handle_id();
    let total = sc.total_tokens();
    let nprod = sc.producers.len();
    let mut tx0 = Some(tx0);
    let mut rx0 = Some(rx0);
    let mut joins = vec![];
    let mut prod_joins = vec![];
    // consumers first or producers first does not matter: the scheduler decides who runs
    for (i, _) in sc.consumers.iter().enumerate() {
      let last = i + 1 == sc.consumers.len();
      let (rx, hid) = if last {
        (rx0.take().unwrap(), rx0_id)
      } else {
        let c = rx0.as_ref().unwrap().try_clone().expect("flavour must be multi-consumer");
        let nid = sh.handle_id();
        let inv = next_seq();
        record(255, rx0_id, inv, EvK::RxClone { to: nid });
        (c, nid)
      };
      let sc2 = sc.clone();
      let sh2 = sh.clone();
      joins.push(shuttle::thread::spawn(move || run_consumer(i, nprod, &sc2.consumers[i], rx, hid, &sh2, total)));
    }
    for (i, _) in sc.producers.iter().enumerate() {
      let last = i + 1 == sc.producers.len();
      let (tx, hid) = if last && !sc.hold_open {
        (tx0.take().unwrap(), tx0_id)
      } else {
        let c = tx0.as_ref().unwrap().try_clone().expect("flavour must be multi-producer");
        let nid = sh.handle_id();
        let inv = next_seq();
        record(255, tx0_id, inv, EvK::TxClone { to: nid });
        (c, nid)
      };
      let sc2 = sc.clone();
      let sh2 = sh.clone();
      prod_joins.push(shuttle::thread::spawn(move || run_producer(i, &sc2.producers[i], tx, hid, &sh2)));
    }
    for j in prod_joins {
      j.join().unwrap();
    }
    if let Some(tx) = tx0.take() {
      // hold-open variant: wake-ups are needed *before* disconnect could paper over them
      let mut rounds = 0u32;
      while sh.received.load(Ordering::SeqCst) < sh.sent_ok.load(Ordering::SeqCst) {
        shuttle::thread::yield_now();
        rounds += 1;
        if rounds > HOLD_OPEN_YIELDS {
          // Nobody received what is available although every other thread had thousands of
          // scheduling rounds: remember it and let the disconnect finish the run, so the
          // history is complete and the oracles can tell a lost value from a lost wake-up.
          let inv = next_seq();
          record(255, tx0_id, inv, EvK::HoldOpenTimeout);
          break;
        }
      }
      let inv = next_seq();
      drop(tx);
      record(255, tx0_id, inv, EvK::TxDrop);
    }
    for j in joins {
      j.join().unwrap();
    }
  }
}
