#!/bin/sh
# usage: check.sh <property id> quick|thorough
# Rebuilds the simulation workspace from /repo's current working tree (the shadow manifests'
# [lib] paths point into /repo) with the hooks enabled (--cfg excsn_fibre_verif, see
# sim/.cargo/config.toml), then runs the registered check. Exit 0 clean / only listed findings,
# 1 violation (a "VIOLATION property=<id> replay=<path>" line is printed), 2 harness error.
VERIF_DIR="${VERIF_DIR:-/verif}"
export VERIF_DIR
cd "$VERIF_DIR/sim" || { echo "HARNESS-ERROR: no $VERIF_DIR/sim"; exit 2; }
export CARGO_NET_OFFLINE=true
if ! cargo build --release --offline -q -p fibsim 2> target-build.log; then
  echo "HARNESS-ERROR: simulation build failed (does /repo still compile with --cfg excsn_fibre_verif?)"
  tail -30 target-build.log
  exit 2
fi
tier="${2:-${VERIF_TIER:-quick}}"
exec ./target/release/fibsim check "$1" --"$tier"
