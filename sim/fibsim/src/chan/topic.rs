//! Topic pub/sub family (C08, plus the topic clauses of C04/C05/C06/C09): 1–2 publishing threads
//! (sender clones), 1–3 receivers that subscribe / unsubscribe / clone / close while messages are
//! being published, mailbox capacities 1–4, sync and async handles.

use super::adapt::{Either, RRes};
use super::conc::{Knobs, ModeSer};
use super::drive::{drive, Plan};
use super::oracle::viol_named;
use super::tok::{ledger_reset, ledger_snapshot, CTok, LedgerEntry};
use crate::core::batch::{hash_str, Evaluated, Family, Violation};
use crate::core::rng::Rng;
use crate::core::run::{FailKind, RunCfg, RunOut};
use fibre::error::TryRecvError;
use fibre::spmc::topic;
use fibre::RecvErrorTimeout;
use fibre_verif_rt::ctx::{self, next_seq, FaultKind};
use serde::{Deserialize, Serialize};
use serde_json::{json, Value};
use std::cell::RefCell;
use std::collections::{BTreeMap, BTreeSet};
use std::sync::atomic::{AtomicU32, Ordering};
use std::sync::Arc;
use std::time::Duration;

type K = u8;
type STx = topic::TopicSender<K, CTok>;
type ATx = topic::AsyncTopicSender<K, CTok>;
type SRx = topic::TopicReceiver<K, CTok>;
type ARx = topic::AsyncTopicReceiver<K, CTok>;

#[derive(Clone, Debug, Serialize, Deserialize, PartialEq)]
pub enum TSOp {
  Publish { topic: u8 },
  Convert,
  /// clone (through the sync form), continue with the clone, drop the original
  CloneSwap,
  CloneDrop,
  CloseOwn,
  Yield,
}

#[derive(Clone, Copy, Debug, Serialize, Deserialize, PartialEq, Eq, Hash, PartialOrd, Ord)]
pub enum TForm {
  Single,
  Try,
  Timeout,
  Stream,
}

#[derive(Clone, Debug, Serialize, Deserialize, PartialEq)]
pub enum TROp {
  Sub(u8),
  Unsub(u8),
  Recv { form: TForm, timeout_ns: u64, plan: Plan },
  Convert,
  CloneSwap,
  CloneDrop,
  Yield,
}

#[derive(Clone, Copy, Debug, Serialize, Deserialize, PartialEq)]
pub enum TEnd {
  Drop,
  Close,
  CloseThenUse,
}

#[derive(Clone, Debug, Serialize, Deserialize, PartialEq)]
pub struct TSender {
  pub ops: Vec<TSOp>,
}

#[derive(Clone, Debug, Serialize, Deserialize, PartialEq)]
pub struct TReceiver {
  /// executed once, before the receiver reports "ready"
  pub init: Vec<TROp>,
  /// executed cyclically until Disconnected / quota
  pub ops: Vec<TROp>,
  pub quota: Option<u16>,
  pub at_end: TEnd,
}

#[derive(Clone, Debug, Serialize, Deserialize, PartialEq)]
pub struct TopicSc {
  pub cap: usize,
  pub async_ctor: bool,
  pub senders: Vec<TSender>,
  pub receivers: Vec<TReceiver>,
  /// publishers wait until every receiver has run its `init` ops
  pub sync_start: bool,
  pub knobs: Knobs,
}

impl TopicSc {
  pub fn any_async(&self) -> bool {
    self.async_ctor || self.senders.iter().any(|s| s.ops.contains(&TSOp::Convert)) || self.receivers.iter().any(|r| r.ops.contains(&TROp::Convert) || r.init.contains(&TROp::Convert))
  }
  pub fn total_publishes(&self) -> usize {
    self.senders.iter().map(|s| s.ops.iter().filter(|o| matches!(o, TSOp::Publish { .. })).count()).sum()
  }
}

#[derive(Clone, Debug)]
pub enum TK {
  Publish { topic: u8, id: u32, ok: bool },
  Sub(u8),
  Unsub(u8),
  Recv { form: TForm, res: RRes, got: Option<(u8, u32)> },
  RxClone { to: u16 },
  RxClose { ok: bool },
  RxDrop,
  TxClone { to: u16 },
  TxClose { ok: bool },
  TxDrop,
  Bail,
}

#[derive(Clone, Debug)]
pub struct TEv {
  pub actor: u8,
  /// handle id; sender and receiver handles share one id space
  pub handle: u16,
  pub k: TK,
  pub inv: u64,
  pub ret: u64,
}

thread_local! {
  static EVS: RefCell<Vec<TEv>> = const { RefCell::new(Vec::new()) };
  static CUR: RefCell<Option<Arc<TopicSc>>> = const { RefCell::new(None) };
}

fn rec(actor: u8, handle: u16, inv: u64, k: TK) {
  let ret = next_seq();
  EVS.with(|e| e.borrow_mut().push(TEv { actor, handle, k, inv, ret }));
}

struct Sh {
  next_handle: AtomicU32,
  ready: AtomicU32,
}

impl Sh {
  fn hid(&self) -> u16 {
    self.next_handle.fetch_add(1, Ordering::SeqCst) as u16
  }
}

fn tx_clone(tx: &Either<STx, ATx>) -> Either<STx, ATx> {
  match tx {
    Either::S(h) => Either::S(h.clone()),
    // the async sender has no Clone: go through the sync form and back (a zero-cost conversion
    // pair, leaves the original handle untouched)
    Either::A(_) => unreachable!("clone only via clone_any"),
  }
}

fn clone_any(tx: Either<STx, ATx>) -> (Either<STx, ATx>, Either<STx, ATx>) {
  match tx {
    Either::S(h) => {
      let c = h.clone();
      (Either::S(h), Either::S(c))
    }
    Either::A(h) => {
      let s = h.to_sync();
      let c = s.clone();
      (Either::A(s.to_async()), Either::A(c.to_async()))
    }
  }
}

fn run_sender(idx: usize, s: &TSender, mut tx: Either<STx, ATx>, mut hid: u16, sh: &Sh, nrecv: u32, sync_start: bool) {
  let actor = idx as u8;
  if sync_start {
    while sh.ready.load(Ordering::SeqCst) < nrecv {
      shuttle::thread::yield_now();
    }
  }
  let mut seq = 0u32;
  for op in &s.ops {
    match op {
      TSOp::Publish { topic } => {
        let id = (idx as u32) * 256 + seq;
        seq += 1;
        let tok = CTok::new(id);
        let inv = next_seq();
        let ok = fibre_verif_rt::chan::thread::no_park_section(|| match &tx {
          Either::S(h) => h.send(*topic, tok).is_ok(),
          Either::A(h) => h.send(*topic, tok).is_ok(),
        });
        rec(actor, hid, inv, TK::Publish { topic: *topic, id, ok });
      }
      TSOp::Convert => {
        tx = match tx {
          Either::S(h) => Either::A(h.to_async()),
          Either::A(h) => Either::S(h.to_sync()),
        };
      }
      TSOp::CloneSwap => {
        let nid = sh.hid();
        let inv = next_seq();
        let (orig, c) = clone_any(tx);
        rec(actor, hid, inv, TK::TxClone { to: nid });
        let inv = next_seq();
        drop(orig);
        rec(actor, hid, inv, TK::TxDrop);
        tx = c;
        hid = nid;
      }
      TSOp::CloneDrop => {
        let nid = sh.hid();
        let inv = next_seq();
        let (orig, c) = clone_any(tx);
        rec(actor, hid, inv, TK::TxClone { to: nid });
        tx = orig;
        ctx::fault_fired(FaultKind::HandleDropMidRun);
        let inv = next_seq();
        drop(c);
        rec(actor, nid, inv, TK::TxDrop);
      }
      TSOp::CloseOwn => {
        let inv = next_seq();
        let ok = match &tx {
          Either::S(h) => h.close().is_ok(),
          Either::A(h) => h.close().is_ok(),
        };
        rec(actor, hid, inv, TK::TxClose { ok });
      }
      TSOp::Yield => shuttle::thread::yield_now(),
    }
  }
  let inv = next_seq();
  drop(tx);
  rec(actor, hid, inv, TK::TxDrop);
  let _ = tx_clone;
}

fn rx_recv(rx: &mut Either<SRx, ARx>, form: TForm, timeout_ns: u64, plan: Plan) -> (TForm, RRes, Option<(u8, u32)>) {
  let is_async = matches!(rx, Either::A(_));
  let form = match form {
    TForm::Timeout if is_async => TForm::Single,
    TForm::Stream if !is_async => TForm::Single,
    f => f,
  };
  fn conv(v: (u8, CTok)) -> Option<(u8, u32)> {
    let id = v.1.id();
    Some((v.0, id)) // the CTok is dropped here: the receiver's copy, exactly once
  }
  match (form, rx) {
    (TForm::Single, Either::S(h)) => match h.recv() {
      Ok(v) => (form, RRes::Got, conv(v)),
      Err(_) => (form, RRes::Disconnected, None),
    },
    (TForm::Single, Either::A(h)) => match drive(h.recv(), plan) {
      Some(Ok(v)) => (form, RRes::Got, conv(v)),
      Some(Err(_)) => (form, RRes::Disconnected, None),
      None => (form, RRes::Cancelled, None),
    },
    (TForm::Try, rx) => {
      let r = fibre_verif_rt::chan::thread::no_park_section(|| match rx {
        Either::S(h) => h.try_recv(),
        Either::A(h) => h.try_recv(),
      });
      match r {
        Ok(v) => (form, RRes::Got, conv(v)),
        Err(TryRecvError::Empty) => (form, RRes::Empty, None),
        Err(TryRecvError::Disconnected) => (form, RRes::Disconnected, None),
      }
    }
    (TForm::Timeout, Either::S(h)) => match h.recv_timeout(Duration::from_nanos(timeout_ns.max(1))) {
      Ok(v) => (form, RRes::Got, conv(v)),
      Err(RecvErrorTimeout::Timeout) => (form, RRes::Timeout, None),
      Err(RecvErrorTimeout::Disconnected) => (form, RRes::Disconnected, None),
    },
    (TForm::Stream, Either::A(h)) => {
      use futures_util::StreamExt;
      match drive(h.next(), plan) {
        Some(Some(v)) => (form, RRes::Got, conv(v)),
        Some(None) => (form, RRes::Disconnected, None),
        None => (form, RRes::Cancelled, None),
      }
    }
    _ => (form, RRes::Unsupported, None),
  }
}

fn rx_op(actor: u8, op: &TROp, rx: &mut Either<SRx, ARx>, hid: &mut u16, sh: &Sh) -> Option<RRes> {
  match op {
    TROp::Sub(t) => {
      let inv = next_seq();
      match rx {
        Either::S(h) => h.subscribe(*t),
        Either::A(h) => h.subscribe(*t),
      }
      rec(actor, *hid, inv, TK::Sub(*t));
      None
    }
    TROp::Unsub(t) => {
      let inv = next_seq();
      match rx {
        Either::S(h) => h.unsubscribe(t),
        Either::A(h) => h.unsubscribe(t),
      }
      rec(actor, *hid, inv, TK::Unsub(*t));
      None
    }
    TROp::Recv { form, timeout_ns, plan } => {
      let inv = next_seq();
      let (form, res, got) = rx_recv(rx, *form, *timeout_ns, *plan);
      rec(actor, *hid, inv, TK::Recv { form, res, got });
      Some(res)
    }
    TROp::Convert => {
      // move out, convert, move back
      let old = std::mem::replace(rx, Either::S(dead_rx()));
      *rx = match old {
        Either::S(h) => Either::A(h.to_async()),
        Either::A(h) => Either::S(h.to_sync()),
      };
      None
    }
    TROp::CloneSwap | TROp::CloneDrop => {
      let nid = sh.hid();
      let inv = next_seq();
      let c = match rx {
        Either::S(h) => Either::S(h.clone()),
        Either::A(h) => Either::A(h.clone()),
      };
      rec(actor, *hid, inv, TK::RxClone { to: nid });
      if matches!(op, TROp::CloneSwap) {
        let old = std::mem::replace(rx, c);
        let inv = next_seq();
        drop(old);
        rec(actor, *hid, inv, TK::RxDrop);
        *hid = nid;
      } else {
        let inv = next_seq();
        drop(c);
        rec(actor, nid, inv, TK::RxDrop);
      }
      None
    }
    TROp::Yield => {
      shuttle::thread::yield_now();
      None
    }
  }
}

/// A placeholder receiver used only while a handle is moved out for conversion: a clone of a
/// receiver whose dispatcher is gone is "dead" by construction in the library; here we simply
/// build a fresh unrelated channel and keep its receiver (its sender is dropped at once).
fn dead_rx() -> SRx {
  let (_t, r) = topic::channel::<K, CTok>(1);
  r
}

fn run_receiver(idx: usize, nsend: usize, r: &TReceiver, mut rx: Either<SRx, ARx>, mut hid: u16, sh: &Sh, total: usize) {
  let actor = (nsend + idx) as u8;
  for op in &r.init {
    rx_op(actor, op, &mut rx, &mut hid, sh);
  }
  sh.ready.fetch_add(1, Ordering::SeqCst);
  let budget = r.ops.len().max(1) * (total + 6);
  let mut rounds = 0;
  let mut got_total = 0usize;
  'outer: loop {
    for op in &r.ops {
      rounds += 1;
      if rounds > budget {
        let inv = next_seq();
        rec(actor, hid, inv, TK::Bail);
        break 'outer;
      }
      match rx_op(actor, op, &mut rx, &mut hid, sh) {
        Some(RRes::Disconnected) => break 'outer,
        Some(RRes::Got) => {
          got_total += 1;
          if let Some(q) = r.quota {
            if got_total >= q as usize {
              break 'outer;
            }
          }
        }
        Some(RRes::Empty) | Some(RRes::Timeout) | Some(RRes::Cancelled) => shuttle::thread::yield_now(),
        _ => {}
      }
    }
  }
  match r.at_end {
    TEnd::Drop => {}
    TEnd::Close | TEnd::CloseThenUse => {
      let inv = next_seq();
      let ok = match &rx {
        Either::S(h) => h.close().is_ok(),
        Either::A(h) => h.close().is_ok(),
      };
      rec(actor, hid, inv, TK::RxClose { ok });
      if r.at_end == TEnd::CloseThenUse {
        for form in [TForm::Try, TForm::Timeout] {
          let inv = next_seq();
          let (form, res, got) = rx_recv(&mut rx, form, 1000, Plan::NONE);
          rec(actor, hid, inv, TK::Recv { form, res, got });
        }
        let inv = next_seq();
        let ok = match &rx {
          Either::S(h) => h.close().is_ok(),
          Either::A(h) => h.close().is_ok(),
        };
        rec(actor, hid, inv, TK::RxClose { ok });
      }
    }
  }
  let inv = next_seq();
  drop(rx);
  rec(actor, hid, inv, TK::RxDrop);
}

fn topic_main() {
  let sc: Arc<TopicSc> = CUR.with(|c| c.borrow().clone()).expect("no current scenario");
  let sh = Arc::new(Sh { next_handle: AtomicU32::new(0), ready: AtomicU32::new(0) });
  let (tx0, rx0): (Either<STx, ATx>, Either<SRx, ARx>) = if sc.async_ctor {
    let (t, r) = topic::channel_async::<K, CTok>(sc.cap);
    (Either::A(t), Either::A(r))
  } else {
    let (t, r) = topic::channel::<K, CTok>(sc.cap);
    (Either::S(t), Either::S(r))
  };
  let tx0_id = sh.hid();
  let rx0_id = sh.hid();
  let total = sc.total_publishes();
  let nsend = sc.senders.len();
  let nrecv = sc.receivers.len() as u32;
  let mut rx0 = Some(rx0);
  let mut tx0 = Some(tx0);
  let mut joins = vec![];
  for i in 0..sc.receivers.len() {
    let last = i + 1 == sc.receivers.len();
    let (rx, hid) = if last {
      (rx0.take().unwrap(), rx0_id)
    } else {
      let nid = sh.hid();
      let inv = next_seq();
      let c = match rx0.as_ref().unwrap() {
        Either::S(h) => Either::S(h.clone()),
        Either::A(h) => Either::A(h.clone()),
      };
      rec(255, rx0_id, inv, TK::RxClone { to: nid });
      (c, nid)
    };
    let sc2 = sc.clone();
    let sh2 = sh.clone();
    joins.push(shuttle::thread::spawn(move || run_receiver(i, nsend, &sc2.receivers[i], rx, hid, &sh2, total)));
  }
  for i in 0..sc.senders.len() {
    let last = i + 1 == sc.senders.len();
    let (tx, hid) = if last {
      (tx0.take().unwrap(), tx0_id)
    } else {
      let nid = sh.hid();
      let inv = next_seq();
      let (orig, c) = clone_any(tx0.take().unwrap());
      tx0 = Some(orig);
      rec(255, tx0_id, inv, TK::TxClone { to: nid });
      (c, nid)
    };
    let sc2 = sc.clone();
    let sh2 = sh.clone();
    let sync_start = sc.sync_start;
    joins.push(shuttle::thread::spawn(move || run_sender(i, &sc2.senders[i], tx, hid, &sh2, nrecv, sync_start)));
  }
  for j in joins {
    j.join().unwrap();
  }
}

pub struct TopicRun {
  pub out: RunOut,
  pub events: Vec<TEv>,
  pub ledger: Vec<LedgerEntry>,
}

pub struct TopicFamily {
  pub faults: bool,
  pub asyncness: u8,
  pub cancel: bool,
  pub lifecycle: bool,
  /// subscription changes racing with publishing (otherwise only in `init`)
  pub dynamic_subs: bool,
}

fn gen_plan(rng: &mut Rng, allow_cancel: bool) -> Plan {
  let mut p = Plan::NONE;
  if allow_cancel && rng.chance(1, 5) {
    p.cancel_after = rng.range(1, 2) as u8;
    p.linger = rng.below(3) as u8;
  }
  if rng.chance(1, 6) {
    p.swap_waker = true;
  }
  if rng.chance(1, 8) {
    p.spurious_poll = true;
  }
  p
}

impl Family for TopicFamily {
  type Sc = TopicSc;

  fn name(&self) -> &'static str {
    "CH-TOPIC"
  }

  fn rule(&self) -> &'static str {
    "one case = one generated pub/sub program (mailbox capacity 1-4, 1-2 publishing threads x <=8 messages over <=3 topics, 1-3 receivers with subscribe/unsubscribe/clone/close and mixed receive forms) under one seeded schedule and fault plan; non-trivial = >=3 context switches and >=1 message delivered; distinct = distinct scheduler decision-trace hash"
  }

  fn needs_fresh_thread(&self) -> bool {
    // the subscription sets (std HashSet, papaya HashMap) use a fixed-key hasher under the
    // hook cfg, so their iteration order is a function of the run alone
    false
  }

  fn max_steps(&self) -> usize {
    60_000
  }

  fn generate(&self, rng: &mut Rng) -> TopicSc {
    let cap = *rng.pick(&[1usize, 1, 2, 3, 4]);
    let async_ctor = match self.asyncness {
      0 => false,
      1 => true,
      _ => rng.chance(1, 2),
    };
    let ntopics = rng.range(1, 3) as u8;
    let nsend = rng.range(1, 2);
    let mut senders: Vec<TSender> = vec![];
    for _ in 0..nsend {
      let mut ops = vec![];
      for _ in 0..rng.range(1, 8) {
        match rng.below(24) {
          0 if self.asyncness == 2 => ops.push(TSOp::Convert),
          1 if self.lifecycle => ops.push(TSOp::CloneSwap),
          2 if self.lifecycle => ops.push(TSOp::CloneDrop),
          3 if self.lifecycle && rng.chance(1, 4) => {
            ops.push(TSOp::CloseOwn);
            // keep going on a clone of the closed handle: it must not bring the channel back
            if rng.chance(1, 2) {
              ops.push(TSOp::CloneSwap);
            }
          }
          4 => ops.push(TSOp::Yield),
          _ => {}
        }
        ops.push(TSOp::Publish { topic: rng.below(ntopics as u64) as u8 });
      }
      senders.push(TSender { ops });
    }
    let nrecv = rng.range(1, 3);
    let mut receivers = vec![];
    for _ in 0..nrecv {
      let mut init = vec![];
      for t in 0..ntopics {
        if rng.chance(2, 3) {
          init.push(TROp::Sub(t));
        }
      }
      let mut ops = vec![];
      for _ in 0..rng.range(1, 4) {
        match rng.below(16) {
          0 if self.asyncness == 2 => ops.push(TROp::Convert),
          1 if self.lifecycle => ops.push(TROp::CloneSwap),
          2 if self.lifecycle => ops.push(TROp::CloneDrop),
          3 | 4 if self.dynamic_subs => ops.push(TROp::Sub(rng.below(ntopics as u64) as u8)),
          5 if self.dynamic_subs => ops.push(TROp::Unsub(rng.below(ntopics as u64) as u8)),
          6 => ops.push(TROp::Yield),
          _ => {}
        }
        let mut forms = vec![TForm::Single, TForm::Single, TForm::Try, TForm::Timeout];
        if self.asyncness > 0 {
          forms.push(TForm::Stream);
        }
        ops.push(TROp::Recv { form: *rng.pick(&forms), timeout_ns: *rng.pick(&[1u64, 1_000, 1_000_000]), plan: gen_plan(rng, self.cancel) });
      }
      ops.push(TROp::Recv { form: TForm::Single, timeout_ns: 0, plan: Plan::NONE });
      let quota = if self.lifecycle && rng.chance(1, 5) { Some(rng.range(1, 4) as u16) } else { None };
      let at_end = if self.lifecycle { *rng.pick(&[TEnd::Drop, TEnd::Drop, TEnd::Close, TEnd::CloseThenUse]) } else { TEnd::Drop };
      receivers.push(TReceiver { init, ops, quota, at_end });
    }
    for s in senders.iter_mut() {
      sanitize_sender(s);
    }
    let total: u32 = senders.iter().map(|s| s.ops.len() as u32).sum();
    TopicSc { cap, async_ctor, senders, receivers, sync_start: rng.chance(2, 3), knobs: Knobs::gen(rng, self.faults, 30 * (total + 6)) }
  }

  fn begin(&self, sc: &TopicSc, record_trace: bool) -> RunCfg {
    ledger_reset();
    EVS.with(|e| e.borrow_mut().clear());
    CUR.with(|c| *c.borrow_mut() = Some(Arc::new(sc.clone())));
    sc.knobs.run_cfg(record_trace)
  }

  fn body(&self) -> Arc<dyn Fn() + Send + Sync> {
    Arc::new(topic_main)
  }

  fn finish(&self, sc: &TopicSc, out: RunOut) -> Evaluated {
    CUR.with(|c| *c.borrow_mut() = None);
    let run = TopicRun { out, events: EVS.with(|e| std::mem::take(&mut *e.borrow_mut())), ledger: ledger_snapshot() };
    if std::env::var("VERIF_DUMP").is_ok() {
      for e in &run.events {
        println!("  ev actor={} handle={} inv={} ret={} {:?}", e.actor, e.handle, e.inv, e.ret, e.k);
      }
      println!("  failure={:?}", run.out.failure);
    }
    let violations = evaluate(sc, &run);
    let mut states = vec![];
    for e in &run.events {
      match &e.k {
        TK::Publish { ok, .. } => states.push(hash_str(&format!("topic|P|{ok}"))),
        TK::Recv { form, res, .. } => states.push(hash_str(&format!("topic|R|{form:?}|{res:?}"))),
        TK::Sub(_) => states.push(hash_str("topic|sub")),
        TK::Unsub(_) => states.push(hash_str("topic|unsub")),
        _ => {}
      }
    }
    states.sort();
    states.dedup();
    let delivered = run.events.iter().any(|e| matches!(&e.k, TK::Recv { got: Some(_), .. }));
    let nontrivial = run.out.stats.switches >= 3 && delivered;
    Evaluated { out: run.out, violations, states, nontrivial }
  }

  fn shrink(&self, sc: &TopicSc) -> Vec<TopicSc> {
    let mut out = vec![];
    if sc.senders.len() > 1 {
      for i in 0..sc.senders.len() {
        let mut c = sc.clone();
        c.senders.remove(i);
        out.push(c);
      }
    }
    if sc.receivers.len() > 1 {
      for i in 0..sc.receivers.len() {
        let mut c = sc.clone();
        c.receivers.remove(i);
        out.push(c);
      }
    }
    for (si, s) in sc.senders.iter().enumerate() {
      if s.ops.len() > 1 {
        for oi in 0..s.ops.len() {
          let mut c = sc.clone();
          c.senders[si].ops.remove(oi);
          out.push(c);
        }
      }
    }
    for (ri, r) in sc.receivers.iter().enumerate() {
      for oi in 0..r.init.len() {
        let mut c = sc.clone();
        c.receivers[ri].init.remove(oi);
        out.push(c);
      }
      if r.ops.len() > 1 {
        for oi in 0..r.ops.len() - 1 {
          let mut c = sc.clone();
          c.receivers[ri].ops.remove(oi);
          out.push(c);
        }
      }
      for (oi, op) in r.ops.iter().enumerate() {
        if let TROp::Recv { form, timeout_ns, plan } = op {
          if *plan != Plan::NONE {
            let mut c = sc.clone();
            c.receivers[ri].ops[oi] = TROp::Recv { form: *form, timeout_ns: *timeout_ns, plan: Plan::NONE };
            out.push(c);
          }
          if *form != TForm::Single {
            let mut c = sc.clone();
            c.receivers[ri].ops[oi] = TROp::Recv { form: TForm::Single, timeout_ns: 0, plan: *plan };
            out.push(c);
          }
        }
      }
      if r.quota.is_some() {
        let mut c = sc.clone();
        c.receivers[ri].quota = None;
        out.push(c);
      }
      if r.at_end != TEnd::Drop {
        let mut c = sc.clone();
        c.receivers[ri].at_end = TEnd::Drop;
        out.push(c);
      }
    }
    if sc.knobs.spurious_rate > 0 || sc.knobs.cas_weak > 0 || sc.knobs.park_return > 0 {
      let mut c = sc.clone();
      c.knobs.spurious_rate = 0;
      c.knobs.cas_weak = 0;
      c.knobs.park_return = 0;
      out.push(c);
    }
    if sc.knobs.mode != ModeSer::Uniform {
      let mut c = sc.clone();
      c.knobs.mode = ModeSer::Uniform;
      out.push(c);
    }
    if !sc.sync_start {
      let mut c = sc.clone();
      c.sync_start = true;
      out.push(c);
    }
    for c in out.iter_mut() {
      for s in c.senders.iter_mut() {
        sanitize_sender(s);
      }
    }
    out.retain(|c| {
      !c.senders.is_empty()
        && !c.receivers.is_empty()
        && c.receivers.iter().all(|r| matches!(r.ops.last(), Some(TROp::Recv { form: TForm::Single, plan, .. }) if plan.cancel_after == 0))
    });
    out
  }

  fn reseed(&self, sc: &TopicSc, seed: u64) -> TopicSc {
    let mut c = sc.clone();
    c.knobs.seed = seed;
    c
  }

  fn components(&self) -> Value {
    json!({
      "real": ["fibre::spmc::topic (dispatcher, subscriber lists, mailboxes, sync + async handles, stream), internal::left_right"],
      "stub": ["parking_lot::Mutex -> shuttle Mutex", "atomics / park -> shuttle-backed facade", "Instant / park_timeout -> virtual clock", "executor -> shuttle block_on"],
      "uninstrumented": ["papaya::HashMap (runs atomically between scheduling points)"]
    })
  }
}

/// (Clone operations on a sender handle after its own close() are generated: see `born_tx`.)
fn sanitize_sender(_s: &mut TSender) {}

#[derive(Clone, Copy)]
struct Interval {
  /// possibly subscribed from / until (widest)
  p_from: u64,
  p_to: u64,
  /// definitely subscribed from / until (narrowest); d_from > d_to means never definitely
  d_from: u64,
  d_to: u64,
}

/// C08 oracle (plus topic's C04 clauses and the liveness classes).
pub fn evaluate(sc: &TopicSc, run: &TopicRun) -> Vec<Violation> {
  let fl = "topic";
  let mut vs = vec![];
  let evs = &run.events;
  let live_prop = if sc.any_async() { "C06" } else { "C05" };
  if let Some(f) = &run.out.failure {
    let class = match f.kind {
      FailKind::Deadlock => "deadlock",
      FailKind::StepBound => "step_bound",
      FailKind::Panic => "panic",
    };
    let mut extra: Vec<(&str, String)> = vec![];
    if f.kind == FailKind::Panic {
      extra.push(("where", f.location.clone()));
    }
    // which receivers never got their Disconnected: subscribed to nothing at the end?
    let detail = format!("{} at {}", f.message, f.location);
    vs.push(viol_named(fl, live_prop, class, &extra, detail.clone()));
    // "it does observe Disconnected then, whatever its subscriptions" is C08's own clause
    vs.push(viol_named(fl, "C08", class, &extra, detail));
    return vs;
  }
  if run.out.no_park_violations > 0 {
    vs.push(viol_named(fl, "C08", "publish_or_try_recv_parked", &[], format!("{} park(s) inside publish / try_recv", run.out.no_park_violations)));
  }

  // handle genealogy and subscription intervals per receiver handle and topic
  let mut parent: BTreeMap<u16, (u16, u64, u64)> = BTreeMap::new(); // clone -> (parent, inv, ret)
  for e in evs {
    if let TK::RxClone { to } = &e.k {
      parent.insert(*to, (e.handle, e.inv, e.ret));
    }
  }
  let rx_handles: BTreeSet<u16> = evs
    .iter()
    .filter_map(|e| match &e.k {
      TK::Sub(_) | TK::Unsub(_) | TK::Recv { .. } | TK::RxClose { .. } | TK::RxDrop => Some(e.handle),
      TK::RxClone { to } => Some(*to),
      _ => None,
    })
    .chain(evs.iter().filter_map(|e| if let TK::RxClone { .. } = &e.k { Some(e.handle) } else { None }))
    .collect();
  let tx_handles: BTreeSet<u16> = evs
    .iter()
    .filter_map(|e| match &e.k {
      TK::Publish { .. } | TK::TxClose { .. } | TK::TxDrop => Some(e.handle),
      TK::TxClone { to } => Some(*to),
      _ => None,
    })
    .chain(evs.iter().filter_map(|e| if let TK::TxClone { .. } = &e.k { Some(e.handle) } else { None }))
    .collect();

  // sender clones made from a handle after its own close(): neither counted as alive nor held
  // to the closed-handle rules (see chan/oracle.rs::born_of_closed)
  let mut born_tx: BTreeSet<u16> = BTreeSet::new();
  for e in evs {
    if let TK::TxClone { to } = &e.k {
      if born_tx.contains(&e.handle) || evs.iter().any(|x| x.handle == e.handle && x.ret <= e.inv && matches!(x.k, TK::TxClose { ok: true })) {
        born_tx.insert(*to);
      }
    }
  }
  let tx_handles: BTreeSet<u16> = tx_handles.difference(&born_tx).copied().collect();

  // intervals[(handle, topic)] = list of subscription intervals
  let mut intervals: BTreeMap<(u16, u8), Vec<Interval>> = BTreeMap::new();
  // process handles in creation order so that parents are known before clones
  let mut order: Vec<u16> = rx_handles.iter().copied().collect();
  order.sort_by_key(|h| parent.get(h).map(|p| p.1).unwrap_or(0));
  let end_of = |h: u16| -> (u64, u64) {
    // the handle stops being subscribed when it is closed or dropped
    evs
      .iter()
      .filter(|e| e.handle == h && matches!(e.k, TK::RxClose { .. } | TK::RxDrop))
      .map(|e| (e.inv, e.ret))
      .min()
      .unwrap_or((u64::MAX, u64::MAX))
  };
  for h in &order {
    let (end_inv, end_ret) = end_of(*h);
    // inherited subscriptions
    if let Some((p, cinv, cret)) = parent.get(h) {
      let keys: Vec<(u16, u8)> = intervals.keys().filter(|k| k.0 == *p).copied().collect();
      for k in keys {
        let ivs = intervals[&k].clone();
        for iv in ivs {
          // parent possibly subscribed at some point of the clone call
          if iv.p_from <= *cret && iv.p_to >= *cinv {
            let definitely = iv.d_from <= *cinv && iv.d_to >= *cret;
            intervals.entry((*h, k.1)).or_default().push(Interval {
              p_from: *cinv,
              p_to: u64::MAX,
              d_from: if definitely { *cret } else { u64::MAX },
              d_to: u64::MAX,
            });
          }
        }
      }
    }
    // own subscribe / unsubscribe calls, in program order
    for e in evs.iter().filter(|e| e.handle == *h) {
      match &e.k {
        TK::Sub(t) => {
          let v = intervals.entry((*h, *t)).or_default();
          let open = v.last().map(|iv| iv.p_to == u64::MAX).unwrap_or(false);
          if !open {
            v.push(Interval { p_from: e.inv, p_to: u64::MAX, d_from: e.ret, d_to: u64::MAX });
          }
        }
        TK::Unsub(t) => {
          if let Some(v) = intervals.get_mut(&(*h, *t)) {
            if let Some(iv) = v.last_mut() {
              if iv.p_to == u64::MAX {
                iv.p_to = e.ret;
                iv.d_to = e.inv;
              }
            }
          }
        }
        _ => {}
      }
    }
    // close / drop ends everything
    for ((hh, _), v) in intervals.iter_mut() {
      if *hh == *h {
        for iv in v.iter_mut() {
          if iv.p_to == u64::MAX {
            iv.p_to = end_ret;
            iv.d_to = iv.d_to.min(end_inv);
          }
        }
      }
    }
  }

  // publishes
  let mut pubs: BTreeMap<u32, (u8, u64, u64, bool, u16)> = BTreeMap::new(); // id -> topic, inv, ret, ok, tx handle
  for e in evs {
    if let TK::Publish { topic, id, ok } = &e.k {
      pubs.insert(*id, (*topic, e.inv, e.ret, *ok, e.handle));
    }
  }

  // receives per handle
  let mut got_by: BTreeMap<u16, Vec<(u8, u32, u64, u64)>> = BTreeMap::new();
  let mut saw_disc: BTreeMap<u16, u64> = BTreeMap::new();
  for e in evs {
    if let TK::Recv { res, got, form } = &e.k {
      if let Some((t, id)) = got {
        got_by.entry(e.handle).or_default().push((*t, *id, e.inv, e.ret));
        if saw_disc.contains_key(&e.handle) {
          vs.push(viol_named(fl, "C04", "value_after_disconnected", &[], format!("receiver handle {} obtained ({t}, {id}) after it had observed Disconnected", e.handle)));
        }
        let own_closed = evs.iter().any(|x| x.handle == e.handle && x.ret <= e.inv && matches!(x.k, TK::RxClose { ok: true }));
        if own_closed {
          vs.push(viol_named(fl, "C04", "closed_receiver_accepted_op", &[("form", format!("{form:?}"))], format!("receiver handle {} returned a value after its own close()", e.handle)));
        }
      }
      if *res == RRes::Disconnected {
        let own_closed = evs.iter().any(|x| x.handle == e.handle && x.ret <= e.inv && matches!(x.k, TK::RxClose { ok: true }));
        if !own_closed {
          saw_disc.entry(e.handle).or_insert(e.ret);
          // only after every sender handle is gone
          let alive: Vec<u16> = tx_handles
            .iter()
            .copied()
            .filter(|h| !evs.iter().any(|x| x.handle == *h && x.inv < e.ret && matches!(x.k, TK::TxClose { .. } | TK::TxDrop)))
            .collect();
          if !alive.is_empty() {
            let det = format!("receiver handle {} observed Disconnected at {} while sender handles {alive:?} were alive", e.handle, e.ret);
            vs.push(viol_named(fl, "C08", "disconnected_while_sender_alive", &[], det.clone()));
            vs.push(viol_named(fl, "C04", "premature_disconnected", &[("form", format!("{form:?}"))], det));
          }
        }
      }
    }
  }
  for (h, got) in &got_by {
    let mut seen: BTreeSet<u32> = BTreeSet::new();
    let mut last_per_sender: BTreeMap<u32, u32> = BTreeMap::new();
    for (t, id, _rinv, _rret) in got {
      let Some((pt, pinv, pret, ok, _txh)) = pubs.get(id).copied() else {
        vs.push(viol_named(fl, "C08", "phantom_message", &[], format!("receiver handle {h} got ({t}, {id}) that was never published")));
        continue;
      };
      if pt != *t {
        vs.push(viol_named(fl, "C08", "wrong_topic", &[], format!("receiver handle {h} got value {id} under topic {t}, published under {pt}")));
      }
      if !ok {
        vs.push(viol_named(fl, "C08", "failed_publish_delivered", &[], format!("value {id} whose publish reported Closed was delivered to handle {h}")));
      }
      if !seen.insert(*id) {
        vs.push(viol_named(fl, "C08", "duplicate_delivery", &[], format!("receiver handle {h} got value {id} twice")));
      }
      // subscribed at publish time (at some point within the publish call)
      let sub_ok = intervals.get(&(*h, *t)).map(|v| v.iter().any(|iv| iv.p_from <= pret && iv.p_to >= pinv)).unwrap_or(false);
      if !sub_ok {
        vs.push(viol_named(fl, "C08", "delivered_without_subscription", &[], format!("receiver handle {h} got ({t}, {id}) but was not subscribed to topic {t} at any point of that publish call [{pinv},{pret}]")));
      }
      // publish order per publishing thread
      let sender = id / 256;
      if let Some(prev) = last_per_sender.get(&sender) {
        if *id <= *prev {
          vs.push(viol_named(fl, "C08", "publish_order_violated", &[], format!("receiver handle {h} got value {id} after {prev} of the same publisher")));
        }
      }
      last_per_sender.insert(sender, *id);
    }
  }

  // omissions: a receiver that was definitely subscribed during the whole publish call, whose
  // mailbox cannot have been full, and that kept receiving until Disconnected, must have got it
  for h in &rx_handles {
    let Some(disc_at) = saw_disc.get(h) else { continue };
    let got: Vec<(u8, u32, u64, u64)> = got_by.get(h).cloned().unwrap_or_default();
    let got_ids: BTreeSet<u32> = got.iter().map(|g| g.1).collect();
    for (id, (t, pinv, pret, ok, _)) in &pubs {
      if !*ok || got_ids.contains(id) || *pret > *disc_at {
        continue;
      }
      let definitely = intervals.get(&(*h, *t)).map(|v| v.iter().any(|iv| iv.d_from <= *pinv && iv.d_to >= *pret)).unwrap_or(false);
      if !definitely {
        continue;
      }
      // upper bound of the mailbox occupancy at any point of the publish call: messages this
      // handle eventually received whose publish had started, minus receives completed before
      let arrived = got.iter().filter(|g| pubs.get(&g.1).map(|p| p.1 < *pret).unwrap_or(false)).count();
      let taken = got.iter().filter(|g| g.3 <= *pinv).count();
      // cancelled receive futures of this handle may hold a value nobody sees: be conservative
      let cancelled = evs.iter().any(|e| e.handle == *h && matches!(e.k, TK::Recv { res: RRes::Cancelled, .. }));
      let upper = arrived.saturating_sub(taken);
      if upper < sc.cap && !cancelled {
        vs.push(viol_named(
          fl,
          "C08",
          "message_dropped_although_mailbox_not_full",
          &[],
          format!("receiver handle {h} was subscribed to topic {t} during the whole publish of value {id} [{pinv},{pret}], its mailbox (capacity {}) held at most {upper} messages then, it kept receiving until Disconnected, yet never got the value", sc.cap),
        ));
      }
    }
  }

  // nobody publishes successfully once a receiver was told that every sender is gone for good
  if let Some((h, t)) = saw_disc.iter().map(|(h, t)| (*h, *t)).min_by_key(|x| x.1) {
    for e in evs {
      if let TK::Publish { ok: true, id, .. } = &e.k {
        if e.inv > t {
          vs.push(viol_named(fl, "C04", "send_accepted_after_disconnected_observed", &[("via_clone_of_closed_handle", born_tx.contains(&e.handle).to_string())], format!("receiver handle {h} was told Disconnected at {t}, yet sender handle {} published value {id} Ok at {}", e.handle, e.inv)));
        }
      }
    }
  }

  // stamp by which every sender handle had been closed or dropped (None if one never was)
  let senders_gone_at: Option<u64> = tx_handles
    .iter()
    .map(|h| evs.iter().filter(|x| x.handle == *h && matches!(x.k, TK::TxClose { .. } | TK::TxDrop)).map(|x| x.ret).min())
    .collect::<Option<Vec<u64>>>()
    .and_then(|v| v.into_iter().max());

  // C04: close idempotence for both sides
  let mut closed_ok: BTreeSet<u16> = BTreeSet::new();
  for e in evs {
    match &e.k {
      TK::TxClose { .. } if born_tx.contains(&e.handle) => {}
      TK::TxClose { ok } | TK::RxClose { ok } => {
        if *ok && !closed_ok.insert(e.handle) {
          vs.push(viol_named(fl, "C04", "close_not_idempotent", &[], format!("second close() of handle {} reported Ok", e.handle)));
        } else if !*ok && !closed_ok.contains(&e.handle) {
          // a receiver cloned after the channel died (every sender handle gone, dispatcher
          // freed) is born closed: its first close() legitimately reports CloseError
          let born_dead = parent.get(&e.handle).map(|p| senders_gone_at.map(|g| p.1 > g).unwrap_or(false)).unwrap_or(false);
          if !born_dead {
            vs.push(viol_named(fl, "C04", "first_close_failed", &[], format!("first close() of handle {} reported CloseError", e.handle)));
          }
        }
      }
      TK::Publish { ok, id, .. } => {
        if *ok && closed_ok.contains(&e.handle) {
          vs.push(viol_named(fl, "C04", "closed_sender_accepted_op", &[], format!("sender handle {} published value {id} Ok after its own close()", e.handle)));
        }
      }
      _ => {}
    }
  }
  // a publish may report Closed only if every receiver handle was gone
  for e in evs {
    if let TK::Publish { ok: false, id, .. } = &e.k {
      let own_closed = evs.iter().any(|x| x.handle == e.handle && x.ret <= e.inv && matches!(x.k, TK::TxClose { ok: true }));
      if own_closed || born_tx.contains(&e.handle) {
        continue;
      }
      let alive: Vec<u16> = rx_handles
        .iter()
        .copied()
        .filter(|h| {
          let created = parent.get(h).map(|p| p.2).unwrap_or(0);
          created < e.inv && !evs.iter().any(|x| x.handle == *h && x.inv < e.ret && matches!(x.k, TK::RxClose { .. } | TK::RxDrop))
        })
        .collect();
      if !alive.is_empty() {
        vs.push(viol_named(fl, "C04", "premature_closed", &[], format!("publish of value {id} reported Closed at {} while receiver handles {alive:?} were alive", e.ret)));
      }
    }
  }

  // C09: ledger
  for (id, le) in run.ledger.iter().enumerate() {
    if le.created == 0 {
      continue;
    }
    if le.dropped > le.created {
      vs.push(viol_named(fl, "C09", "double_drop", &[], format!("token {id} created {} time(s), dropped {}", le.created, le.dropped)));
    } else if le.dropped < le.created {
      vs.push(viol_named(fl, "C09", "leak", &[], format!("token {id} created {} time(s), dropped {} after all handles were gone", le.created, le.dropped)));
    }
  }
  vs
}
