//! Stand-in for `dashmap` 5.5 in the simulation build (see Cargo.toml): the API slice fibre_ioc
//! uses (`Default`, `insert`, `get` -> `Ref::value`), sharded like the real map and guarded by
//! the real shard lock algorithm.
#![allow(dead_code, clippy::missing_safety_doc)]

pub mod lock;
pub mod plc;

use lock::{RwLock, RwLockReadGuard};
use std::collections::HashMap;
use std::hash::{BuildHasher, Hash, Hasher};

/// Deterministic hasher state (std's RandomState would differ from process to process).
#[derive(Clone, Default)]
pub struct DetState;

impl BuildHasher for DetState {
  type Hasher = std::collections::hash_map::DefaultHasher;
  fn build_hasher(&self) -> Self::Hasher {
    std::collections::hash_map::DefaultHasher::new()
  }
}

const SHARDS: usize = 4;

pub struct DashMap<K, V> {
  shards: Box<[RwLock<HashMap<K, V, DetState>>]>,
}

impl<K: Eq + Hash, V> Default for DashMap<K, V> {
  fn default() -> Self {
    Self::new()
  }
}

pub struct Ref<'a, K, V> {
  _guard: RwLockReadGuard<'a, HashMap<K, V, DetState>>,
  k: *const K,
  v: *const V,
}

impl<'a, K, V> Ref<'a, K, V> {
  pub fn key(&self) -> &K {
    unsafe { &*self.k }
  }
  pub fn value(&self) -> &V {
    unsafe { &*self.v }
  }
}

impl<'a, K, V> std::ops::Deref for Ref<'a, K, V> {
  type Target = V;
  fn deref(&self) -> &V {
    self.value()
  }
}

impl<K: Eq + Hash, V> DashMap<K, V> {
  pub fn new() -> Self {
    Self { shards: (0..SHARDS).map(|_| RwLock::new(HashMap::with_hasher(DetState))).collect() }
  }

  fn shard_of<Q: Hash + ?Sized>(&self, key: &Q) -> usize {
    let mut h = DetState.build_hasher();
    key.hash(&mut h);
    // dashmap uses the top bits of the hash
    ((h.finish() << 7) >> (64 - 2)) as usize % SHARDS
  }

  pub fn insert(&self, key: K, value: V) -> Option<V> {
    let idx = self.shard_of(&key);
    let mut shard = self.shards[idx].write();
    shard.insert(key, value)
  }

  pub fn get<'a>(&'a self, key: &K) -> Option<Ref<'a, K, V>> {
    let idx = self.shard_of(key);
    let shard = self.shards[idx].read();
    let (k, v) = shard.get_key_value(key)?;
    let (k, v) = (k as *const K, v as *const V);
    Some(Ref { _guard: shard, k, v })
  }

  pub fn remove(&self, key: &K) -> Option<(K, V)> {
    let idx = self.shard_of(key);
    self.shards[idx].write().remove_entry(key)
  }

  pub fn clear(&self) {
    for s in self.shards.iter() {
      s.write().clear();
    }
  }

  pub fn is_empty(&self) -> bool {
    self.len() == 0
  }

  pub fn contains_key(&self, key: &K) -> bool {
    let idx = self.shard_of(key);
    self.shards[idx].read().contains_key(key)
  }

  pub fn len(&self) -> usize {
    self.shards.iter().map(|s| s.read().len()).sum()
  }
}
