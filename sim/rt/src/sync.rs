//! Atomics and `Mutex` with the APIs the repository uses (std atomics; parking_lot mutex),
//! implemented on shuttle primitives so each access is a scheduling point.

use crate::ctx::{self, FaultKind};
use std::ops::{Deref, DerefMut};

pub use shuttle::sync::atomic::{fence, Ordering};

macro_rules! atomic_int {
  ($name:ident, $t:ty) => {
    #[derive(Debug, Default)]
    #[repr(transparent)]
    pub struct $name(shuttle::sync::atomic::$name);

    impl $name {
      pub const fn new(v: $t) -> Self {
        Self(shuttle::sync::atomic::$name::new(v))
      }

      /// Like std: may fail spuriously (fault F2). A spurious failure returns the current value,
      /// which then equals `current`, exactly as on LL/SC hardware.
      pub fn compare_exchange_weak(
        &self,
        current: $t,
        new: $t,
        success: Ordering,
        failure: Ordering,
      ) -> Result<$t, $t> {
        if ctx::coin(ctx::rates().cas_weak) {
          let v = self.0.load(failure);
          if v == current {
            ctx::fault_fired(FaultKind::CasWeakFail);
          }
          return Err(v);
        }
        let r = self.0.compare_exchange(current, new, success, failure);
        if r.is_ok() {
          ctx::after_write(success);
        }
        r
      }

      pub fn into_inner(self) -> $t {
        self.0.into_inner()
      }

      // writes: the scheduling point shuttle puts *before* the operation, plus (per-run knob)
      // one after it
      pub fn store(&self, v: $t, order: Ordering) {
        self.0.store(v, order);
        ctx::after_write(order);
      }
      pub fn swap(&self, v: $t, order: Ordering) -> $t {
        let r = self.0.swap(v, order);
        ctx::after_write(order);
        r
      }
      pub fn compare_exchange(&self, current: $t, new: $t, success: Ordering, failure: Ordering) -> Result<$t, $t> {
        let r = self.0.compare_exchange(current, new, success, failure);
        if r.is_ok() {
          ctx::after_write(success);
        }
        r
      }
      pub fn fetch_and(&self, v: $t, order: Ordering) -> $t {
        let r = self.0.fetch_and(v, order);
        ctx::after_write(order);
        r
      }
      pub fn fetch_or(&self, v: $t, order: Ordering) -> $t {
        let r = self.0.fetch_or(v, order);
        ctx::after_write(order);
        r
      }
    }

    impl Deref for $name {
      type Target = shuttle::sync::atomic::$name;
      fn deref(&self) -> &Self::Target {
        &self.0
      }
    }

    impl DerefMut for $name {
      fn deref_mut(&mut self) -> &mut Self::Target {
        &mut self.0
      }
    }

    impl From<$t> for $name {
      fn from(v: $t) -> Self {
        Self::new(v)
      }
    }
  };
}

macro_rules! atomic_arith {
  ($name:ident, $t:ty) => {
    impl $name {
      pub fn fetch_add(&self, v: $t, order: Ordering) -> $t {
        let r = self.0.fetch_add(v, order);
        ctx::after_write(order);
        r
      }
      pub fn fetch_sub(&self, v: $t, order: Ordering) -> $t {
        let r = self.0.fetch_sub(v, order);
        ctx::after_write(order);
        r
      }
    }
  };
}

atomic_int!(AtomicBool, bool);
atomic_int!(AtomicU8, u8);
atomic_arith!(AtomicU8, u8);
atomic_int!(AtomicU32, u32);
atomic_arith!(AtomicU32, u32);
atomic_int!(AtomicU64, u64);
atomic_arith!(AtomicU64, u64);
atomic_int!(AtomicUsize, usize);
atomic_arith!(AtomicUsize, usize);
atomic_int!(AtomicI64, i64);
atomic_arith!(AtomicI64, i64);
atomic_int!(AtomicIsize, isize);
atomic_arith!(AtomicIsize, isize);

#[derive(Debug)]
#[repr(transparent)]
pub struct AtomicPtr<T>(shuttle::sync::atomic::AtomicPtr<T>);

impl<T> AtomicPtr<T> {
  pub const fn new(v: *mut T) -> Self {
    Self(shuttle::sync::atomic::AtomicPtr::new(v))
  }

  pub fn compare_exchange_weak(
    &self,
    current: *mut T,
    new: *mut T,
    success: Ordering,
    failure: Ordering,
  ) -> Result<*mut T, *mut T> {
    if ctx::coin(ctx::rates().cas_weak) {
      let v = self.0.load(failure);
      if v == current {
        ctx::fault_fired(FaultKind::CasWeakFail);
      }
      return Err(v);
    }
    let r = self.0.compare_exchange(current, new, success, failure);
    if r.is_ok() {
      ctx::after_write(success);
    }
    r
  }

  pub fn into_inner(self) -> *mut T {
    self.0.into_inner()
  }

  pub fn store(&self, v: *mut T, order: Ordering) {
    self.0.store(v, order);
    ctx::after_write(order);
  }
  pub fn swap(&self, v: *mut T, order: Ordering) -> *mut T {
    let r = self.0.swap(v, order);
    ctx::after_write(order);
    r
  }
  pub fn compare_exchange(&self, current: *mut T, new: *mut T, success: Ordering, failure: Ordering) -> Result<*mut T, *mut T> {
    let r = self.0.compare_exchange(current, new, success, failure);
    if r.is_ok() {
      ctx::after_write(success);
    }
    r
  }
}

impl<T> Default for AtomicPtr<T> {
  fn default() -> Self {
    Self::new(std::ptr::null_mut())
  }
}

impl<T> Deref for AtomicPtr<T> {
  type Target = shuttle::sync::atomic::AtomicPtr<T>;
  fn deref(&self) -> &Self::Target {
    &self.0
  }
}

impl<T> DerefMut for AtomicPtr<T> {
  fn deref_mut(&mut self) -> &mut Self::Target {
    &mut self.0
  }
}

// ------------------------------------------------------------------------------------------
// Mutex with parking_lot's API (guard-returning lock, Option-returning try_lock, no poisoning).

pub type MutexGuard<'a, T> = shuttle::sync::MutexGuard<'a, T>;

#[derive(Debug, Default)]
pub struct Mutex<T: ?Sized>(shuttle::sync::Mutex<T>);

impl<T> Mutex<T> {
  pub const fn new(value: T) -> Self {
    Self(shuttle::sync::Mutex::new(value))
  }

  pub fn into_inner(self) -> T {
    match self.0.into_inner() {
      Ok(v) => v,
      Err(p) => p.into_inner(),
    }
  }
}

impl<T: ?Sized> Mutex<T> {
  pub fn lock(&self) -> MutexGuard<'_, T> {
    match self.0.lock() {
      Ok(g) => g,
      Err(p) => p.into_inner(),
    }
  }

  pub fn try_lock(&self) -> Option<MutexGuard<'_, T>> {
    match self.0.try_lock() {
      Ok(g) => Some(g),
      Err(std::sync::TryLockError::Poisoned(p)) => Some(p.into_inner()),
      Err(std::sync::TryLockError::WouldBlock) => None,
    }
  }

  pub fn get_mut(&mut self) -> &mut T {
    match self.0.get_mut() {
      Ok(v) => v,
      Err(p) => p.into_inner(),
    }
  }
}
