//! Virtual clock: u64 nanoseconds, reset per run, never reads a real clock.

use std::cell::Cell;
use std::ops::{Add, AddAssign, Sub};
use std::time::Duration;

thread_local! {
  static NOW_NS: Cell<u64> = const { Cell::new(1_000_000_000) };
  static MAX_NS: Cell<u64> = const { Cell::new(1_000_000_000) };
  static START_NS: Cell<u64> = const { Cell::new(1_000_000_000) };
}

pub fn reset(start_ns: u64) {
  NOW_NS.with(|n| n.set(start_ns));
  MAX_NS.with(|n| n.set(start_ns));
  START_NS.with(|n| n.set(start_ns));
}

pub fn now_ns() -> u64 {
  NOW_NS.with(|n| n.get())
}

/// Virtual time covered by this run so far (max reached − start).
pub fn covered_ns() -> u64 {
  MAX_NS.with(|m| m.get()) - START_NS.with(|m| m.get())
}

pub fn advance(d: Duration) {
  advance_ns(d.as_nanos().min(u64::MAX as u128 / 4) as u64)
}

pub fn advance_ns(ns: u64) {
  NOW_NS.with(|n| {
    let v = n.get().saturating_add(ns);
    n.set(v);
    MAX_NS.with(|m| {
      if v > m.get() {
        m.set(v)
      }
    });
  });
}

/// Set the clock (used for backwards jumps of wall clocks; `Instant` users only ever see it move
/// forward because scenarios that use monotonic time never call this).
pub fn set_ns(ns: u64) {
  NOW_NS.with(|n| n.set(ns));
  MAX_NS.with(|m| {
    if ns > m.get() {
      m.set(ns)
    }
  });
}

pub fn now_duration() -> Duration {
  Duration::from_nanos(now_ns())
}

/// Stand-in for `std::time::Instant` reading the virtual clock.
#[derive(Clone, Copy, Debug, PartialEq, Eq, PartialOrd, Ord, Hash)]
pub struct Instant(u64);

impl Instant {
  pub fn now() -> Instant {
    Instant(now_ns())
  }
  pub fn elapsed(&self) -> Duration {
    Duration::from_nanos(now_ns().saturating_sub(self.0))
  }
  pub fn duration_since(&self, earlier: Instant) -> Duration {
    Duration::from_nanos(self.0.saturating_sub(earlier.0))
  }
  pub fn saturating_duration_since(&self, earlier: Instant) -> Duration {
    self.duration_since(earlier)
  }
  pub fn checked_duration_since(&self, earlier: Instant) -> Option<Duration> {
    self.0.checked_sub(earlier.0).map(Duration::from_nanos)
  }
  pub fn checked_add(&self, d: Duration) -> Option<Instant> {
    let ns = u64::try_from(d.as_nanos()).ok()?;
    self.0.checked_add(ns).map(Instant)
  }
  pub fn checked_sub(&self, d: Duration) -> Option<Instant> {
    let ns = u64::try_from(d.as_nanos()).ok()?;
    self.0.checked_sub(ns).map(Instant)
  }
  pub fn as_nanos(&self) -> u64 {
    self.0
  }
}

impl Add<Duration> for Instant {
  type Output = Instant;
  fn add(self, d: Duration) -> Instant {
    self.checked_add(d).expect("overflow when adding duration to virtual instant")
  }
}

impl AddAssign<Duration> for Instant {
  fn add_assign(&mut self, d: Duration) {
    *self = *self + d;
  }
}

impl Sub<Duration> for Instant {
  type Output = Instant;
  fn sub(self, d: Duration) -> Instant {
    self.checked_sub(d).expect("overflow when subtracting duration from virtual instant")
  }
}

impl Sub<Instant> for Instant {
  type Output = Duration;
  fn sub(self, o: Instant) -> Duration {
    self.duration_since(o)
  }
}
