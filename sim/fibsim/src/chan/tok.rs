//! Payload tokens with an observable `Drop`. Tokens own no heap memory: they are plain ids whose
//! `Drop` bumps a per-id counter in a per-run ledger, so a double drop is *observed* by the ledger
//! instead of corrupting the simulator's allocator.

use std::cell::RefCell;

#[derive(Clone, Copy, Debug, Default)]
pub struct LedgerEntry {
  pub created: u32,
  pub dropped: u32,
}

thread_local! {
  static LEDGER: RefCell<Vec<LedgerEntry>> = const { RefCell::new(Vec::new()) };
}

pub fn ledger_reset() {
  LEDGER.with(|l| l.borrow_mut().clear());
}

pub fn ledger_snapshot() -> Vec<LedgerEntry> {
  LEDGER.with(|l| l.borrow().clone())
}

/// Move-only token (point-to-point channels).
#[derive(Debug, PartialEq, Eq)]
pub struct Tok(pub u32);

impl Tok {
  /// Create the token with the given id (ids are dense, chosen by the scenario).
  pub fn new(id: u32) -> Tok {
    LEDGER.with(|l| {
      let mut l = l.borrow_mut();
      if l.len() <= id as usize {
        l.resize(id as usize + 1, LedgerEntry::default());
      }
      l[id as usize].created += 1;
    });
    Tok(id)
  }
  pub fn id(&self) -> u32 {
    self.0
  }
}

impl Drop for Tok {
  fn drop(&mut self) {
    LEDGER.with(|l| {
      let mut l = l.borrow_mut();
      if l.len() <= self.0 as usize {
        l.resize(self.0 as usize + 1, LedgerEntry::default());
      }
      l[self.0 as usize].dropped += 1;
    });
  }
}

/// Cloneable token (broadcast / topic channels): every clone is one more creation.
#[derive(Debug, PartialEq, Eq)]
pub struct CTok(pub u32);

impl CTok {
  pub fn new(id: u32) -> CTok {
    std::mem::forget(Tok::new(id));
    CTok(id)
  }
  pub fn id(&self) -> u32 {
    self.0
  }
}

impl Clone for CTok {
  fn clone(&self) -> Self {
    CTok::new(self.0)
  }
}

impl Drop for CTok {
  fn drop(&mut self) {
    drop(Tok(self.0));
  }
}
