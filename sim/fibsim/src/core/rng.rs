//! SplitMix64: the one PRNG family everything descends from (VERIF_SEED -> run seeds -> scenario /
//! schedule / fault / knob streams).

#[derive(Clone, Debug)]
pub struct Rng(pub u64);

impl Rng {
  pub fn new(seed: u64) -> Self {
    Rng(seed)
  }
  pub fn next_u64(&mut self) -> u64 {
    self.0 = self.0.wrapping_add(0x9E37_79B9_7F4A_7C15);
    let mut z = self.0;
    z = (z ^ (z >> 30)).wrapping_mul(0xBF58_476D_1CE4_E5B9);
    z = (z ^ (z >> 27)).wrapping_mul(0x94D0_49BB_1331_11EB);
    z ^ (z >> 31)
  }
  /// uniform in 0..n (n > 0)
  pub fn below(&mut self, n: u64) -> u64 {
    if n <= 1 {
      0
    } else {
      self.next_u64() % n
    }
  }
  pub fn range(&mut self, lo: u64, hi_incl: u64) -> u64 {
    lo + self.below(hi_incl - lo + 1)
  }
  pub fn chance(&mut self, num: u64, den: u64) -> bool {
    self.below(den) < num
  }
  pub fn pick<'a, T>(&mut self, xs: &'a [T]) -> &'a T {
    &xs[self.below(xs.len() as u64) as usize]
  }
  pub fn fork(&mut self) -> Rng {
    Rng(self.next_u64())
  }
}

/// Derive the seed of run `i` of a batch from the batch seed.
pub fn run_seed(batch_seed: u64, i: u64) -> u64 {
  let mut r = Rng(batch_seed ^ i.wrapping_mul(0xD6E8_FEB8_6659_FD93));
  r.next_u64()
}

pub fn fnv1a(h: u64, x: u64) -> u64 {
  let mut h = h;
  for b in x.to_le_bytes() {
    h ^= b as u64;
    h = h.wrapping_mul(0x100_0000_01b3);
  }
  h
}
pub const FNV_OFFSET: u64 = 0xcbf2_9ce4_8422_2325;
